package main

import (
	"crypto/sha256"
	"encoding/json"
	"fmt"
	"io"
	"os"
	"os/exec"
	"path/filepath"
	"sort"
	"strings"
	"time"
)

// repoDir: the tree under test. VERIF_REPO is a development aid only (evaluating a scratch
// worktree while /repo is busy); every registered command uses /repo.
var repoDir = func() string {
	if v := os.Getenv("VERIF_REPO"); v != "" {
		return v
	}
	return "/repo"
}()

var verifDir = func() string {
	if v := os.Getenv("VERIF_DIR"); v != "" {
		return v
	}
	exe, err := os.Executable()
	if err == nil {
		d := filepath.Dir(filepath.Dir(exe))
		if _, err := os.Stat(filepath.Join(d, "sim", "core.go")); err == nil {
			return d
		}
	}
	return "/verif"
}()

func cacheRoot() string {
	d, err := os.UserCacheDir()
	if err != nil || d == "" {
		d = "/var/tmp"
	}
	return filepath.Join(d, "verif-sim-cache")
}

func hashInputs(race bool) (string, error) {
	h := sha256.New()
	var files []string
	files = append(files, listGoFiles(filepath.Join(repoDir, "internal"))...)
	files = append(files, listGoFiles(filepath.Join(repoDir, "cmd"))...)
	files = append(files, filepath.Join(repoDir, "go.mod"), filepath.Join(repoDir, "go.sum"))
	files = append(files, listGoFiles(filepath.Join(verifDir, "sim"))...)
	files = append(files, filepath.Join(verifDir, "runner", "rewrite.go"))
	sort.Strings(files)
	for _, f := range files {
		fh, err := os.Open(f)
		if err != nil {
			return "", err
		}
		fmt.Fprintf(h, "%s\n", f)
		io.Copy(h, fh)
		fh.Close()
	}
	fmt.Fprintf(h, "race=%v", race)
	return fmt.Sprintf("%x", h.Sum(nil))[:24], nil
}

// buildSim builds (or reuses) the simulation test binary for the current /repo working tree.
func buildSim(race bool) (string, *rewriteStats, error) {
	key, err := hashInputs(race)
	if err != nil {
		return "", nil, err
	}
	cdir := filepath.Join(cacheRoot(), key)
	bin := filepath.Join(cdir, "sim.test")
	stFile := filepath.Join(cdir, "rewrite.json")
	if _, err := os.Stat(bin); err == nil {
		var st rewriteStats
		if b, err := os.ReadFile(stFile); err == nil {
			json.Unmarshal(b, &st)
		}
		os.Chtimes(cdir, time.Now(), time.Now())
		return bin, &st, nil
	}
	scratch, err := os.MkdirTemp("", "verif-build-")
	if err != nil {
		return "", nil, err
	}
	if os.Getenv("VERIF_KEEP_SCRATCH") == "" {
		defer os.RemoveAll(scratch)
	} else {
		fmt.Fprintln(os.Stderr, "scratch kept:", scratch)
	}
	modfile := filepath.Join(scratch, "go.mod")
	for _, f := range []string{"go.mod", "go.sum"} {
		b, err := os.ReadFile(filepath.Join(repoDir, f))
		if err != nil {
			return "", nil, err
		}
		if err := os.WriteFile(filepath.Join(scratch, f), b, 0o644); err != nil {
			return "", nil, err
		}
	}
	overlay, st, err := rewriteTree(repoDir, modfile, scratch)
	if err != nil {
		return "", nil, err
	}
	// sim sources as a virtual package
	simFiles, _ := filepath.Glob(filepath.Join(verifDir, "sim", "*.go"))
	for _, f := range simFiles {
		overlay[filepath.Join(repoDir, "internal", "verifsim", filepath.Base(f))] = f
	}
	overlay[filepath.Join(repoDir, "internal", "verifsim", "simrt", "simrt.go")] = filepath.Join(verifDir, "sim", "simrt", "simrt.go")
	// seam in a dependency: database/sql hands a freed connection to a *random* waiting request
	// (math/rand/v2, not seedable). The overlay replaces that one choice by a hook the simulator owns.
	if err := overlaySQLPick(scratch, overlay); err != nil {
		return "", nil, err
	}
	ob, _ := json.Marshal(map[string]any{"Replace": overlay})
	ofile := filepath.Join(scratch, "overlay.json")
	os.WriteFile(ofile, ob, 0o644)
	os.MkdirAll(cdir, 0o755)
	tmpBin := filepath.Join(scratch, "sim.test")
	args := []string{"test", "-c", "-o", tmpBin, "-modfile=" + modfile, "-tags", "verif", "-vet=off", "-overlay", ofile,
		"-ldflags", "-X github.com/go-sql-driver/mysql.driverName=verif_real_mysql"}
	if race {
		args = append(args, "-race")
	}
	args = append(args, "./internal/verifsim/")
	cmd := exec.Command("go1.26.8", args...)
	cmd.Dir = repoDir
	env := goEnv()
	if race {
		// race detector needs cgo
		for i, e := range env {
			if e == "CGO_ENABLED=0" {
				env[i] = "CGO_ENABLED=1"
			}
		}
	}
	cmd.Env = env
	out, err := cmd.CombinedOutput()
	if err != nil {
		return "", nil, fmt.Errorf("build failed: %v\n%s", err, out)
	}
	if err := copyFile(tmpBin, bin); err != nil {
		return "", nil, err
	}
	os.Chmod(bin, 0o755)
	sb, _ := json.Marshal(st)
	os.WriteFile(stFile, sb, 0o644)
	pruneCache(cdir)
	return bin, st, nil
}

func copyFile(a, b string) error {
	in, err := os.Open(a)
	if err != nil {
		return err
	}
	defer in.Close()
	out, err := os.Create(b + ".tmp")
	if err != nil {
		return err
	}
	if _, err := io.Copy(out, in); err != nil {
		out.Close()
		return err
	}
	out.Close()
	return os.Rename(b+".tmp", b)
}

func pruneCache(keep string) {
	ents, err := os.ReadDir(cacheRoot())
	if err != nil {
		return
	}
	type ent struct {
		p string
		t time.Time
	}
	var es []ent
	for _, e := range ents {
		p := filepath.Join(cacheRoot(), e.Name())
		if p == keep {
			continue
		}
		fi, err := os.Stat(p)
		if err != nil {
			continue
		}
		es = append(es, ent{p, fi.ModTime()})
	}
	sort.Slice(es, func(i, j int) bool { return es[i].t.After(es[j].t) })
	// a batch that is still running may be using an older build: recent ones stay
	for i, e := range es {
		if (i >= 5 && time.Since(e.t) > 3*time.Hour) || i >= 40 {
			os.RemoveAll(e.p)
		}
	}
}

var _ = strings.TrimSpace

func overlaySQLPick(scratch string, overlay map[string]string) error {
	out, err := exec.Command("go1.26.8", "env", "GOROOT").Output()
	if err != nil {
		return fmt.Errorf("go env GOROOT: %v", err)
	}
	src := filepath.Join(strings.TrimSpace(string(out)), "src", "database", "sql", "sql.go")
	b, err := os.ReadFile(src)
	if err != nil {
		return err
	}
	const old = "pick := rand.IntN(len(s.s))"
	if !strings.Contains(string(b), old) {
		return fmt.Errorf("database/sql: expected statement %q not found in %s", old, src)
	}
	nb := strings.Replace(string(b), old, "pick := verifPick(len(s.s))", 1)
	nb += `

// VerifPick is a verification seam (added by the /verif build overlay only): the choice among
// waiting connection requests, otherwise random.
var VerifPick func(n int) int

func verifPick(n int) int {
	if VerifPick != nil {
		return VerifPick(n) % n
	}
	return rand.IntN(n)
}
`
	dst := filepath.Join(scratch, "rw", "goroot_database_sql_sql.go")
	os.MkdirAll(filepath.Dir(dst), 0o755)
	if err := os.WriteFile(dst, []byte(nb), 0o644); err != nil {
		return err
	}
	overlay[src] = dst
	return nil
}
