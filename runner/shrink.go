package main

import (
	"encoding/json"
	"fmt"
	"os"
	"path/filepath"
	"strings"
	"time"
)

type replayFile struct {
	Property   string          `json:"property"`
	Signature  string          `json:"signature"`
	Detail     string          `json:"detail"`
	SimTimeMs  int64           `json:"sim_time_ms"`
	EventSeq   uint64          `json:"event_seq"`
	Seed       uint64          `json:"seed"`
	Race       bool            `json:"race,omitempty"`
	Minimised  bool            `json:"minimised"`
	Steps      int             `json:"shrink_runs"`
	Spec       json.RawMessage `json:"spec"`
	StderrTail string          `json:"stderr_tail,omitempty"`
}

func hasSig(o *outcome, sig string) (bool, *violation) {
	if o == nil {
		return false, nil
	}
	if o.res == nil {
		if v, _ := classifyDeathFor(o, strings.SplitN(sig, "/", 2)[0]); v != nil && v.Signature == sig {
			return true, v
		}
		return false, nil
	}
	if rv := raceViolation(o); rv != nil && rv.Signature == sig {
		return true, rv
	}
	for i := range o.res.Violations {
		if o.res.Violations[i].Signature == sig {
			return true, &o.res.Violations[i]
		}
	}
	return false, nil
}

// confirmAndShrink replays the failing spec in a fresh process (must fail with the same
// signature at the same event sequence number), then minimises timeline and fault list.
func confirmAndShrink(bin string, id string, c candidate, tier string) (string, bool, string) {
	sig := c.v.Signature
	isRace := strings.Contains(sig, "/race/")
	spec := c.spec
	if spec == nil {
		// process death: regenerate the spec
		o := runOne(bin, simInput{Mode: c.o.in.Mode, Family: c.o.in.Family, Seed: c.o.in.Seed, Index: c.o.in.Index, Tier: c.o.in.Tier, Spec: c.o.in.Spec, GenOnly: true}, time.Minute)
		if o.res == nil {
			return "", false, "cannot regenerate spec of dead run"
		}
		spec = o.res.Spec
	}
	runs := 0
	try := func(sp json.RawMessage) (*outcome, bool, *violation) {
		runs++
		o := runOne(bin, simInput{Mode: "replay", Spec: sp}, 10*time.Minute)
		ok, v := hasSig(o, sig)
		return o, ok, v
	}
	o, ok, v := try(spec)
	if !ok {
		if isRace {
			// honest limit (DESIGN C20/3): race reports replay with high probability, not exactly
			for i := 0; i < 5 && !ok; i++ {
				o, ok, v = try(spec)
			}
		}
		if !ok {
			return "", false, "replay of the generated spec did not show the signature"
		}
	}
	if !isRace && c.o.res != nil && o.res != nil && v.SimTimeMs != c.v.SimTimeMs {
		return "", false, fmt.Sprintf("violation instant differs on replay: %dms vs %dms", v.SimTimeMs, c.v.SimTimeMs)
	}
	best := spec
	bestV := *v
	minimised := false
	budget := 60 * time.Second
	if tier == "thorough" {
		budget = 10 * time.Minute
	}
	deadline := time.Now().Add(budget)
	if !isRace {
		var m map[string]any
		if json.Unmarshal(spec, &m) == nil {
			// 1. explicit plan: fired per-call faults become an explicit list, rates off
			if o.res != nil && len(o.res.Fired) > 0 {
				m2 := cloneMap(m)
				var fired []any
				for _, f := range o.res.Fired {
					var x any
					json.Unmarshal(f, &x)
					fired = append(fired, x)
				}
				ex, _ := m2["explicit"].([]any)
				m2["explicit"] = append(ex, fired...)
				m2["explicit_only"] = true
				if b, err := json.Marshal(m2); err == nil {
					if _, ok, v2 := try(b); ok {
						best, bestV, m = b, *v2, m2
					}
				}
			}
			// 2. delta-debug explicit faults and timeline
			for _, key := range []string{"explicit", "timeline"} {
				list, _ := m[key].([]any)
				if len(list) == 0 {
					continue
				}
				n := 2
				for len(list) >= 1 && time.Now().Before(deadline) {
					chunk := (len(list) + n - 1) / n
					reduced := false
					for i := 0; i < len(list) && time.Now().Before(deadline); i += chunk {
						j := i + chunk
						if j > len(list) {
							j = len(list)
						}
						cand := append(append([]any{}, list[:i]...), list[j:]...)
						m2 := cloneMap(m)
						m2[key] = cand
						b, _ := json.Marshal(m2)
						if _, ok, v2 := try(b); ok {
							list, m, best, bestV = cand, m2, b, *v2
							reduced, minimised = true, true
							if n > 2 {
								n--
							}
							break
						}
					}
					if !reduced {
						if chunk == 1 {
							break
						}
						n *= 2
						if n > len(list) {
							n = len(list)
						}
					}
				}
			}
			// 3. earlier end time
			if time.Now().Before(deadline) {
				m2 := cloneMap(m)
				m2["duration_ms"] = bestV.SimTimeMs + 3000
				b, _ := json.Marshal(m2)
				if _, ok, v2 := try(b); ok {
					best, bestV, minimised = b, *v2, true
				}
			}
		}
	}
	var seed uint64
	var sm map[string]any
	if json.Unmarshal(best, &sm) == nil {
		if f, ok := sm["seed"].(float64); ok {
			seed = uint64(f)
		}
	}
	rf := replayFile{Property: id, Signature: sig, Detail: bestV.Detail, SimTimeMs: bestV.SimTimeMs, EventSeq: bestV.EventSeq, Seed: seed, Race: isRace, Minimised: minimised, Steps: runs, Spec: best}
	if c.o.res == nil || isRace {
		s := c.o.stderr
		if len(s) > 6000 {
			s = s[len(s)-6000:]
		}
		rf.StderrTail = s
	}
	os.MkdirAll(filepath.Join(verifDir, "replays"), 0o755)
	name := fmt.Sprintf("%s-%d-%s.json", id, seed, shortHash(sig))
	path := filepath.Join(verifDir, "replays", name)
	b, _ := json.MarshalIndent(rf, "", " ")
	if err := os.WriteFile(path, b, 0o644); err != nil {
		return "", false, err.Error()
	}
	return path, true, ""
}

func cloneMap(m map[string]any) map[string]any {
	r := make(map[string]any, len(m))
	for k, v := range m {
		r[k] = v
	}
	return r
}

func shortHash(s string) string {
	var h uint32 = 2166136261
	for i := 0; i < len(s); i++ {
		h ^= uint32(s[i])
		h *= 16777619
	}
	return fmt.Sprintf("%08x", h)
}
