package main

import (
	"encoding/json"
	"sort"
)

type agg struct {
	runs        int
	skipped     int
	dead        int
	simSeconds  float64
	steps       int64
	sql         int64
	zk          int64
	iters       int64
	faults      map[string]int
	probes      map[string]int
	states      map[string]bool
	transitions map[string]bool
	inter       map[string]bool
	distinct    map[string]bool // trajectory hashes of non-trivial runs
	nontrivial  int
	samples     []json.RawMessage
	unknown     map[string]int
	wallRuns    float64
	families    map[string]int
}

func newAgg() *agg {
	return &agg{faults: map[string]int{}, probes: map[string]int{}, states: map[string]bool{}, transitions: map[string]bool{}, inter: map[string]bool{}, distinct: map[string]bool{}, unknown: map[string]int{}, families: map[string]int{}}
}

func (a *agg) add(o *outcome) {
	a.runs++
	a.wallRuns += o.wall.Seconds()
	a.families[o.in.Family]++
	if o.res == nil {
		a.dead++
		return
	}
	st := o.res.Stats
	a.simSeconds += st.SimSeconds
	a.steps += st.Steps
	a.sql += st.SQLCalls
	a.zk += st.ZKRequests
	a.iters += st.Iterations
	for k, v := range st.Faults {
		a.faults[k] += v
	}
	for k, v := range st.Probes {
		a.probes[k] += v
	}
	for _, s := range st.States {
		a.states[s] = true
	}
	for _, s := range st.Transitions {
		a.transitions[s] = true
	}
	for _, s := range st.Interleavings {
		a.inter[s] = true
	}
	if o.res.Nontrivial {
		a.nontrivial++
		if !a.distinct[o.res.TrajHash+o.in.Family] {
			a.distinct[o.res.TrajHash+o.in.Family] = true
			if len(a.samples) < 3 {
				a.samples = append(a.samples, compactSpec(o.res.Spec))
			}
		}
	}
}

// compactSpec keeps samples readable: the explicit scenario without the bulky config block
func compactSpec(raw json.RawMessage) json.RawMessage {
	var m map[string]any
	if json.Unmarshal(raw, &m) != nil {
		return raw
	}
	out := map[string]any{}
	for _, k := range []string{"family", "seed", "variant", "hosts", "timeline", "rates", "duration_ms", "heal_at_ms", "dcs_ops", "engine"} {
		if v, ok := m[k]; ok {
			out[k] = v
		}
	}
	if ops, ok := out["dcs_ops"].([]any); ok && len(ops) > 12 {
		out["dcs_ops"] = ops[:12]
	}
	b, _ := json.Marshal(out)
	return b
}

// probes that must have fired at least once in a check's batch (DESIGN 2.6): a probe stuck at
// zero means the workload or fault mix must change - reported as harness trouble, not success.
var requiredProbes = map[string][]string{
	"C01": {"c01_promotion_checked", "c01_attempt_froze_two_or_more"},
	"C02": {"final_state_canonical"},
	"C03": {"c03_acquire_true", "c03_manager_write_checked", "c03_explicit_release_checked"},
	"C04": {"c04_postcondition_checked", "c04_eviction_published"},
	"C05": {"c05_auto_failover_filed", "c05_suspicious_master_iteration"},
	"C06": {"c06_attempt_started", "c06_terminal_ok", "c06_terminal_rejected"},
	"C07": {"crash_point_fired", "c01_promotion_checked"},
	"C08": {"c08_fenced", "c08_class_must_not_touch"},
	"C09": {"c09_maintenance_acknowledged_full", "c09_maintenance_acknowledged_light", "c09_leave_checked", "c09_leave_attempt_with_several_masters", "c09_freeze_ended", "c09_light_manager_reelected"},
	"C10": {"c10_converged", "c10_stale_master_repointed"},
	"C11": {"c11_recovery_mark_cleared", "c11_resetup_file_written"},
	"C15": {"c15_get_ok", "c15_set_ok"},
	"C16": {"c16_resolution_checked", "c16_moved_to_fallback", "c16_moved_to_configured", "c16_move_gtid_checked", "c16_final_source_checked", "c16_active_list_checked", "c16_master_changed_while_cascade_refuses_logins"},
	"C17": {"c17_lag_offline_within_cap", "c17_broken_replica_set_offline", "c17_online_with_resetup_status_checked", "c17_master_set_online"},
	"C18": {"c18_master_set_read_only", "c18_master_set_writable", "c18_health_record_of_unmeasurable_host_checked"},
	"C19": {"c19_sync_pass_checked", "c19_host_deregistered", "c19_relaxed_settings_written", "c19_settings_restored", "c19_freeze_checked", "c19_promotion_checked", "c19_converged_or_lost_host_checked"},
	"C20": {"c20_steady_run_measured"},
}

func (a *agg) missingProbes(id string) []string {
	var miss []string
	for _, p := range requiredProbes[id] {
		if a.probes[p] == 0 {
			miss = append(miss, p)
		}
	}
	return miss
}

func (a *agg) evidence(cd *checkDef, id, tier string, seed uint64, wall float64, violations int, known []string, rst *rewriteStats, detN int) map[string]any {
	perHour := 0.0
	if wall > 0 {
		perHour = float64(a.runs) / wall * 3600
	}
	samples := make([]any, 0, len(a.samples))
	for _, s := range a.samples {
		var v any
		json.Unmarshal(s, &v)
		samples = append(samples, v)
	}
	if len(samples) == 0 {
		samples = append(samples, map[string]any{"note": "no non-trivial run in this batch"})
	}
	unk := []string{}
	for q := range a.unknown {
		unk = append(unk, q)
	}
	sort.Strings(unk)
	cov := map[string]any{
		"evaluations":                a.runs,
		"distinct_nontrivial":        len(a.distinct),
		"rule":                       cd.rule,
		"samples":                    samples,
		"nontrivial_runs":            a.nontrivial,
		"dead_run_processes":         a.dead,
		"runs_skipped_by_budget":     a.skipped,
		"runs_per_family":            a.families,
		"simulated_seconds":          a.simSeconds,
		"runs_per_hour":              perHour,
		"seeds_per_hour":             perHour,
		"controller_steps":           a.steps,
		"sql_calls_delivered":        a.sql,
		"zk_requests_delivered":      a.zk,
		"state_handler_iterations":   a.iters,
		"faults_fired":               a.faults,
		"probes":                     a.probes,
		"distinct_abstract_states":   len(a.states),
		"distinct_state_transitions": len(a.transitions),
		"distinct_manager_iteration_interleavings": len(a.inter),
		"states":              len(a.states),
		"transitions":         len(a.transitions),
		"unknown_statements":  unk,
		"determinism_smoke":   map[string]any{"seeds": detN, "processes_each": 2, "gomaxprocs": 1, "result": "identical trace hashes"},
		"known_findings_seen": known,
		"real_vs_stub": map[string]string{
			"internal/app, internal/app/*, internal/mysql, internal/dcs/zk.go, internal/config, internal/log, internal/util": "real (map-range and sync.Mutex rewrites, hooks H1-H3)",
			"go-zookeeper client, cenkalti/backoff, sqlx, database/sql, zerolog":                                             "real",
			"go-sql-driver wire protocol, MySQL servers, replication, semi-sync plugin, clients":                             "stub (fakemysql)",
			"ZooKeeper ensemble, TCP, RandomHostProvider":                                                                    "stub (fakezk, simnet, static host provider)",
		},
	}
	if rst != nil {
		cov["rewrite"] = map[string]int{"map_ranges": rst.MapRanges, "sync_types": rst.SyncTypes, "files": rst.Files}
	}
	if cd.level == "fault_enumeration" {
		cov["exhaustive"] = false
	}
	return map[string]any{
		"property_id": id,
		"tier":        tier,
		"seed":        seed,
		"level":       cd.level,
		"coverage":    cov,
		"assumptions": append(append([]string{}, commonAssumptions...), cd.assume...),
		"wall_s":      wall,
		"violations":  violations,
	}
}
