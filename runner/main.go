package main

import (
	"encoding/json"
	"fmt"
	"os"
	"os/exec"
	"path/filepath"
	"strconv"
	"strings"
	"time"
)

func usage() {
	fmt.Fprintln(os.Stderr, `usage:
  runner build [-race]
  runner run1 <family> <seed> <index> [-v] [-race]      one generated run (debugging)
  runner check <ID> quick|thorough
  runner replay <file> [-v]
  runner selftest [n]`)
	os.Exit(2)
}

func main() {
	if len(os.Args) < 2 {
		usage()
	}
	switch os.Args[1] {
	case "build":
		race := len(os.Args) > 2 && os.Args[2] == "-race"
		bin, st, err := buildSim(race)
		if err != nil {
			fmt.Fprintln(os.Stderr, err)
			os.Exit(2)
		}
		fmt.Printf("%s\nrewrite: %+v\n", bin, *st)
	case "run1":
		if len(os.Args) < 5 {
			usage()
		}
		seed, _ := strconv.ParseUint(os.Args[3], 10, 64)
		idx, _ := strconv.Atoi(os.Args[4])
		verbose, race := false, false
		for _, a := range os.Args[5:] {
			if a == "-v" {
				verbose = true
			}
			if a == "-race" {
				race = true
			}
		}
		bin, _, err := buildSim(race)
		if err != nil {
			fmt.Fprintln(os.Stderr, err)
			os.Exit(2)
		}
		out := runOne(bin, simInput{Mode: "gen", Family: os.Args[2], Seed: seed, Index: idx, Tier: "quick", Verbose: verbose}, 10*time.Minute)
		printOutcome(out)
	case "gen": // gen <family> <seed> <index>: print the generated spec
		if len(os.Args) < 5 {
			usage()
		}
		seed, _ := strconv.ParseUint(os.Args[3], 10, 64)
		idx, _ := strconv.Atoi(os.Args[4])
		bin, _, err := buildSim(false)
		if err != nil {
			fmt.Fprintln(os.Stderr, err)
			os.Exit(2)
		}
		out := runOne(bin, simInput{Mode: "gen", Family: os.Args[2], Seed: seed, Index: idx, Tier: "quick", GenOnly: true}, time.Minute)
		if out.res == nil {
			fmt.Fprintln(os.Stderr, out.stderr)
			os.Exit(2)
		}
		os.Stdout.Write(out.res.Spec)
		fmt.Println()
	case "check":
		if len(os.Args) < 4 {
			usage()
		}
		os.Exit(cmdCheck(os.Args[2], os.Args[3]))
	case "replay":
		if len(os.Args) < 3 {
			usage()
		}
		os.Exit(cmdReplay(os.Args[2], len(os.Args) > 3 && os.Args[3] == "-v"))
	case "selftest":
		n := 30
		if len(os.Args) > 2 {
			n, _ = strconv.Atoi(os.Args[2])
		}
		os.Exit(cmdSelftest(n))
	default:
		usage()
	}
}

type simInput struct {
	Mode    string          `json:"mode"`
	Family  string          `json:"family"`
	Seed    uint64          `json:"seed"`
	Tier    string          `json:"tier"`
	Index   int             `json:"index"`
	Spec    json.RawMessage `json:"spec,omitempty"`
	Verbose bool            `json:"verbose,omitempty"`
	GenOnly bool            `json:"gen_only,omitempty"`
}

type violation struct {
	Property  string `json:"property"`
	Clause    string `json:"clause"`
	Signature string `json:"signature"`
	SimTimeMs int64  `json:"sim_time_ms"`
	EventSeq  uint64 `json:"event_seq"`
	Detail    string `json:"detail"`
}

type stats struct {
	SimSeconds    float64        `json:"sim_seconds"`
	Steps         int64          `json:"steps"`
	SQLCalls      int64          `json:"sql_calls"`
	ZKRequests    int64          `json:"zk_requests"`
	Iterations    int64          `json:"iterations"`
	Faults        map[string]int `json:"faults_fired"`
	Probes        map[string]int `json:"probes"`
	States        []string       `json:"states"`
	Transitions   []string       `json:"transitions"`
	Interleavings []string       `json:"interleavings"`
	Unknown       map[string]int `json:"unknown_statements"`
}

type result struct {
	Spec       json.RawMessage   `json:"spec"`
	Violations []violation       `json:"violations"`
	Stats      *stats            `json:"stats"`
	TraceHash  string            `json:"trace_hash"`
	TrajHash   string            `json:"traj_hash"`
	Nontrivial bool              `json:"nontrivial"`
	Fired      []json.RawMessage `json:"fired"`
	Calls      []string          `json:"calls"`
	EndState   string            `json:"end_state"`
}

type outcome struct {
	in       simInput
	res      *result
	exitCode int
	stderr   string
	wall     time.Duration
	timedOut bool
}

// runOne executes one simulated run in its own OS process.
func runOne(bin string, in simInput, timeout time.Duration) *outcome {
	dir, err := os.MkdirTemp("", "verif-io-")
	if err != nil {
		return &outcome{in: in, exitCode: 2, stderr: err.Error()}
	}
	defer os.RemoveAll(dir)
	inPath, outPath := filepath.Join(dir, "in.json"), filepath.Join(dir, "out.json")
	b, _ := json.Marshal(in)
	os.WriteFile(inPath, b, 0o644)
	cmd := exec.Command(bin, "-test.run", "^TestSim$", "-test.timeout", "0")
	cmd.Env = append(os.Environ(), "VERIF_SIM_IN="+inPath, "VERIF_SIM_OUT="+outPath, "GOMAXPROCS="+envOr("VERIF_GOMAXPROCS", "1"), "GODEBUG=asyncpreemptoff=1", "GORACE=halt_on_error=0 exitcode=66")
	if !in.Verbose {
		cmd.Env = append(cmd.Env, "TMPDIR="+dir)
	}
	var stderr, stdout capBuffer
	cmd.Stderr = &stderr
	cmd.Stdout = &stdout
	start := time.Now()
	if err := cmd.Start(); err != nil {
		return &outcome{in: in, exitCode: 2, stderr: err.Error()}
	}
	done := make(chan error, 1)
	go func() { done <- cmd.Wait() }()
	o := &outcome{in: in}
	select {
	case err := <-done:
		if err != nil {
			if ee, ok := err.(*exec.ExitError); ok {
				o.exitCode = ee.ExitCode()
			} else {
				o.exitCode = 2
			}
		}
	case <-time.After(timeout):
		cmd.Process.Kill()
		<-done
		o.timedOut = true
		o.exitCode = 2
	}
	o.wall = time.Since(start)
	o.stderr = stderr.String()
	if rb, err := os.ReadFile(outPath); err == nil {
		var r result
		if json.Unmarshal(rb, &r) == nil {
			o.res = &r
		}
	}
	return o
}

// capBuffer keeps the first 256 KB and the last 6 MB of what a run process prints (a process
// caught in a loop that logs can print gigabytes; panics and race reports are at the end, the
// first report is at the beginning).
type capBuffer struct {
	head    []byte
	tail    []byte
	dropped int64
}

const capHead, capTail = 256 << 10, 6 << 20

func (b *capBuffer) Write(p []byte) (int, error) {
	n := len(p)
	if len(b.head) < capHead {
		k := capHead - len(b.head)
		if k > len(p) {
			k = len(p)
		}
		b.head = append(b.head, p[:k]...)
		p = p[k:]
	}
	if len(p) > 0 {
		b.tail = append(b.tail, p...)
		if len(b.tail) > 2*capTail {
			b.dropped += int64(len(b.tail) - capTail)
			b.tail = append(b.tail[:0], b.tail[len(b.tail)-capTail:]...)
		}
	}
	return n, nil
}

func (b *capBuffer) String() string {
	if b.dropped == 0 {
		return string(b.head) + string(b.tail)
	}
	return string(b.head) + fmt.Sprintf("\n[... %d bytes of output dropped ...]\n", b.dropped) + string(b.tail)
}

func envOr(k, d string) string {
	if v := os.Getenv(k); v != "" {
		return v
	}
	return d
}

func printOutcome(o *outcome) {
	fmt.Printf("exit=%d wall=%v timedOut=%v\n", o.exitCode, o.wall.Round(time.Millisecond), o.timedOut)
	if o.res != nil {
		st := o.res.Stats
		fmt.Printf("sim=%.1fs steps=%d sql=%d zk=%d iters=%d states=%d trans=%d trace=%s nontrivial=%v\n", st.SimSeconds, st.Steps, st.SQLCalls, st.ZKRequests, st.Iterations, len(st.States), len(st.Transitions), o.res.TraceHash, o.res.Nontrivial)
		fmt.Printf("faults=%v\nprobes=%v\n", st.Faults, st.Probes)
		if len(st.Unknown) > 0 {
			fmt.Printf("UNKNOWN STATEMENTS: %v\n", st.Unknown)
		}
		for _, v := range o.res.Violations {
			fmt.Printf("VIOL %s t=%dms seq=%d: %s\n", v.Signature, v.SimTimeMs, v.EventSeq, v.Detail)
		}
		fmt.Printf("end: %s\n", o.res.EndState)
	}
	if s := strings.TrimSpace(o.stderr); s != "" {
		if len(s) > 6000 {
			s = s[:3000] + "\n...\n" + s[len(s)-3000:]
		}
		fmt.Printf("--- stderr ---\n%s\n", s)
	}
}
