module verifrunner

go 1.26
