package main

import (
	"encoding/json"
	"fmt"
	"os"
	"path/filepath"
	"regexp"
	"sort"
	"strconv"
	"strings"
	"sync"
	"time"
)

type familyPlan struct {
	family string
	quick  int
	thor   int
	race   bool
}

type checkDef struct {
	id       string
	level    string
	families []familyPlan
	rule     string
	assume   []string
}

var commonAssumptions = []string{
	"fakemysql (statement table of DESIGN.md App.A, GTID auto-position replication, semi-sync AFTER_SYNC with infinite timeout) and fakezk (znode/session semantics of one logical server) are the trusted base; both are biased against alarms",
	"one global simulated clock (testing/synctest): no per-node clock skew, no whole-process stalls",
	"external calls (SQL statements, ZooKeeper requests, dials) are the only crash/interleaving points between processes",
	"real code under test: internal/app, internal/mysql, internal/dcs (zkDCS), go-zookeeper client, database/sql+sqlx; stubs: go-sql-driver wire protocol, MySQL servers, ZooKeeper ensemble, RandomHostProvider",
}

var checks = map[string]*checkDef{}

func def(id, level, rule string, fams ...familyPlan) {
	checks[id] = &checkDef{id: id, level: level, families: fams, rule: rule}
}

func init() {
	nt := " A run is non-trivial when at least one injected fault (or, for fault-free families, one scenario stimulus) fell inside the window the property cares about and the behaviour under test was actually reached (per-family probe); runs are distinct by the hash of their abstract-state trajectory."
	def("C01", "exploration", "seeded scenarios of family 'switch': cluster shape/config swarm, GTID history, one switch request of each kind, per-call SQL/ZK faults, node losses."+nt, familyPlan{"switch", 260, 4000, false})
	def("C02", "exploration", "family 'singlefault': converged semi-sync cluster, exactly one fault (kind x target x instant x duration) or one manual switchover, then heal; ack-linearity monitor + canonical final state."+nt, familyPlan{"singlefault", 320, 4000, false})
	def("C03", "exploration", "engine B family 'lock' (2-4 real zkDCS clients, acquire/release/idle with connection faults and expiries) + engine A act-under-lock monitors in families 'switch' and 'crashpoints' (manager cut from ZooKeeper at every call boundary of a switchover)."+nt, familyPlan{"lock", 120, 2500, false}, familyPlan{"crashpoints", 360, 2800, false}, familyPlan{"switch", 60, 1200, false})
	def("C04", "exploration", "family 'membership': scripted membership/health transitions with the manager crashed after, or a single call failing at, the k-th external call of the reacting iteration (k enumerated from a pilot run of the same seed); plus family 'switch' (the invariants after failed, rejected and completed switchovers)."+nt, familyPlan{"membership", 600, 6000, false}, familyPlan{"switch", 160, 3000, false})
	def("C05", "exploration", "family 'gates': product of configuration switches, maintenance, pending request, master condition, replica states, active-list contents, last-switch age; reference gate predicate at each creation of switch{cause:auto}."+nt, familyPlan{"gates", 220, 3300, false})
	def("C06", "exploration", "family 'lifecycle': CLI / worker / automatic initiators, long-failing attempts, aborts, attempt limits and timeouts; history check over switch / last_switch / last_rejected_switch."+nt, familyPlan{"lifecycle", 140, 2500, false})
	def("C07", "fault_enumeration", "family 'crashpoints': pilot run records the K external calls of the managing incarnation during the switchover; then one run per k with the manager killed right after (or before) call k, or cut from ZooKeeper; final-state oracle. Distinct = distinct crash point identity; non-trivial = the crash fired inside the procedure."+nt, familyPlan{"crashpoints", 420, 4200, false})
	def("C08", "exploration", "family 'lost': one daemon cut from ZooKeeper over a grid of local role x replica conditions x config; reference decision (DESIGN App.D) vs statements per Lost iteration."+nt, familyPlan{"lost", 140, 2500, false})
	def("C09", "exploration", "family 'maintenance': enter/leave full and light maintenance through the real CLI with restarts, ZK outages, operator SQL, racing requests."+nt, familyPlan{"maintenance", 200, 3000, false})
	def("C10", "exploration", "family 'repair': one-deviation grid and sampled products of initial per-node states + unregistered decoy servers; safety monitors + bounded convergence."+nt, familyPlan{"repair", 160, 3000, false})
	def("C11", "exploration", "family 'recovery': switch away from a master in each GTID relation, recovery checker interleaved with manager iterations, resetup."+nt, familyPlan{"recovery", 140, 2500, false})
	def("C15", "exploration", "engine B family 'dataplane': generated sequences of DCS data operations by 1-3 real zkDCS clients against a reference tree (sequential refinement when fault-free, per-operation admissibility under faults) + ephemeral lifetime; family 'lock' for the lock as an ephemeral key (reported held only while a live session of the caller owns it)."+nt, familyPlan{"dataplane", 160, 3000, false}, familyPlan{"lock", 90, 1500, false})
	def("C16", "exploration", "family 'cascade': stream_from maps incl. chains/cycles/self/unregistered, ancestor health over time; monitors on CHANGE SOURCE at cascade servers."+nt, familyPlan{"cascade", 330, 6600, false})
	def("C17", "exploration", "family 'offline': zone layouts, caps, lag scripts around both thresholds, broken replication, resetup status; per-pass policy constraints."+nt, familyPlan{"offline", 300, 6000, false})
	def("C18", "exploration", "family 'disk': usage scripts for master and semi-sync replicas through the three zones; hysteresis table vs read_only statements."+nt, familyPlan{"disk", 300, 6000, false})
	def("C19", "exploration", "family 'optimization': registries, lag scripts, CLI enable/disable interleaved with syncs, switchovers to lagging replicas."+nt, familyPlan{"optimization", 300, 6000, false})
	def("C20", "exploration", "family 'chaos': long runs with everything at once + tool-only tree contents; process death, goroutine/connection growth in steady runs, race detector build."+nt, familyPlan{"chaos", 60, 1200, false}, familyPlan{"chaos", 8, 64, true})
}

type knownFinding struct {
	Property  string `json:"property"`
	Signature string `json:"signature"`
	What      string `json:"what"`
	Status    string `json:"status"` // known | fixed
	Commit    string `json:"commit,omitempty"`
}

func loadKnown() []knownFinding {
	var kf struct {
		Findings []knownFinding `json:"findings"`
	}
	b, err := os.ReadFile(filepath.Join(verifDir, "known_findings.json"))
	if err != nil {
		return nil
	}
	json.Unmarshal(b, &kf)
	return kf.Findings
}

func matchKnown(kfs []knownFinding, sig string) *knownFinding {
	for i := range kfs {
		k := &kfs[i]
		if k.Status != "known" {
			continue
		}
		if k.Signature == sig || (strings.HasSuffix(k.Signature, "*") && strings.HasPrefix(sig, strings.TrimSuffix(k.Signature, "*"))) {
			return k
		}
	}
	return nil
}

type job struct {
	fam   familyPlan
	index int
	in    simInput
}

func workers() int {
	if v, err := strconv.Atoi(os.Getenv("VERIF_WORKERS")); err == nil && v > 0 {
		return v
	}
	return 12
}

func runJobs(bin map[bool]string, jobs []job, timeout time.Duration, deadline time.Time) []*outcome {
	outs := make([]*outcome, len(jobs))
	var wg sync.WaitGroup
	ch := make(chan int)
	for w := 0; w < workers(); w++ {
		wg.Add(1)
		go func() {
			defer wg.Done()
			for i := range ch {
				if time.Now().After(deadline) {
					continue
				}
				o := runOne(bin[jobs[i].fam.race], jobs[i].in, timeout)
				// a run process that died without a result and without anything attributable to the
				// code under test (the runtime could not get a thread, the machine was out of
				// something) is run once more; runs are deterministic, a real death repeats
				if o.res == nil && o.exitCode != 0 && !o.timedOut {
					if v, _ := classifyDeath(o); v == nil {
						o = runOne(bin[jobs[i].fam.race], jobs[i].in, timeout)
					}
				}
				outs[i] = o
			}
		}()
	}
	for i := range jobs {
		ch <- i
	}
	close(ch)
	wg.Wait()
	return outs
}

// the "panic:" line itself may have fallen into the dropped middle of a very long output (the
// goroutine dump of a big run is megabytes): the signal line that follows it is as good
var panicRe = regexp.MustCompile(`(panic: [^\n]*|fatal error: [^\n]*|\[signal SIG[A-Z]+: [^\n]*)`)
var frameRe = regexp.MustCompile(`(?m)^(github\.com/yandex/mysync/internal/[^\s(]+)\(`)
var raceRe = regexp.MustCompile(`WARNING: DATA RACE`)

// classifyDeath turns a dead run process into a violation (C20) or harness trouble.
// classifyDeathFor: deaths inside the cascade source resolution are what C16 states ("always
// terminates", "never the replica itself"); for the C16 check they are C16 violations, for every
// other check they are C20's.
func classifyDeathFor(o *outcome, id string) (*violation, string) {
	v, why := classifyDeath(o)
	if v != nil && id == "C16" {
		if strings.Contains(v.Signature, "findBestStreamFrom") || strings.Contains(v.Signature, "repairCascadeNode") || strings.Contains(v.Signature, "change-master-to-self") {
			v.Property = "C16"
			v.Signature = "C16/" + strings.TrimPrefix(v.Signature, "C20/")
		}
	}
	return v, why
}

var watchdogFuncRe = regexp.MustCompile(`WATCHDOG-FUNC: (\S+)`)

func classifyDeath(o *outcome) (*violation, string) {
	st := o.stderr
	if o.exitCode == 3 {
		fn := "goroutine-running-in-internal-app"
		if m := watchdogFuncRe.FindStringSubmatch(st); m != nil {
			fn = strings.TrimPrefix(m[1], "github.com/yandex/mysync/internal/")
		}
		return &violation{Property: "C20", Clause: "nontermination", Signature: "C20/nontermination/" + fn, Detail: "a goroutine kept running inside " + fn + " for seconds of real time without making an external call (non-terminating computation)"}, ""
	}
	if m := panicRe.FindString(st); m != "" {
		// first mysync frame after the panic line
		idx := strings.Index(st, m)
		rest := st[idx:]
		fr := ""
		for _, l := range strings.Split(rest, "\n") {
			if !strings.HasPrefix(l, "github.com/yandex/mysync/internal/") || strings.Contains(l, "/verifsim") {
				continue
			}
			if i := strings.LastIndex(l, "("); i > 0 {
				l = l[:i]
			}
			fr = l
			break
		}
		if fr == "" {
			return nil, "process died outside mysync code: " + m
		}
		fr = strings.TrimPrefix(fr, "github.com/yandex/mysync/internal/")
		kind := "panic"
		switch {
		case strings.Contains(m, "nil pointer"), strings.Contains(m, "SIGSEGV"):
			kind = "nil-deref"
		case strings.Contains(m, "index out of range"):
			kind = "index"
		case strings.Contains(m, "concurrent map"):
			kind = "concurrent-map"
		case strings.Contains(m, "impossible to change master to itself"):
			kind = "change-master-to-self"
		}
		return &violation{Property: "C20", Clause: "panic", Signature: "C20/panic/" + fr + ":" + kind, Detail: m}, ""
	}
	if o.timedOut {
		return nil, "run process exceeded the per-run wall-clock limit and was killed"
	}
	return nil, fmt.Sprintf("run process exited %d without a result", o.exitCode)
}

func raceViolation(o *outcome) *violation {
	if !raceRe.MatchString(o.stderr) {
		return nil
	}
	// one report = the block up to the closing ==================; judge every report
	rest := o.stderr
	for {
		idx := strings.Index(rest, "WARNING: DATA RACE")
		if idx < 0 {
			return nil
		}
		rest = rest[idx+len("WARNING: DATA RACE"):]
		rep := rest
		if e := strings.Index(rep, "=================="); e > 0 {
			rep = rep[:e]
		}
		// access stacks are the paragraphs starting with "Write at", "Read at", "Previous ..."
		var tops []string
		for _, para := range strings.Split(rep, "\n\n") {
			lines := strings.Split(strings.TrimSpace(para), "\n")
			if len(lines) < 2 {
				continue
			}
			h := strings.TrimSpace(lines[0])
			if !(strings.HasPrefix(h, "Write at") || strings.HasPrefix(h, "Read at") || strings.HasPrefix(h, "Previous ") || strings.HasPrefix(h, "Atomic ")) {
				continue
			}
			f := strings.TrimSpace(lines[1])
			if i := strings.LastIndex(f, "("); i > 0 {
				f = f[:i]
			}
			tops = append(tops, f)
		}
		// mysync's own shared memory: the accessing (top) frame of both stacks is mysync code
		ok := len(tops) >= 2
		for _, t := range tops {
			if !strings.HasPrefix(t, "github.com/yandex/mysync/internal/") || strings.Contains(t, "/verifsim") {
				ok = false
			}
		}
		if !ok {
			continue
		}
		for i := range tops {
			tops[i] = strings.TrimPrefix(tops[i], "github.com/yandex/mysync/internal/")
		}
		sort.Strings(tops)
		if len(tops) > 2 {
			tops = tops[:2]
		}
		return &violation{Property: "C20", Clause: "race", Signature: "C20/race/" + strings.Join(tops, "+"), Detail: "data race reported by the race detector"}
	}
}

type candidate struct {
	v    violation
	o    *outcome
	spec json.RawMessage
}

func cmdCheck(id, tier string) int {
	start := time.Now()
	cd := checks[id]
	if cd == nil {
		fmt.Fprintf(os.Stderr, "unknown property %s\n", id)
		return 2
	}
	if t := os.Getenv("VERIF_TIER"); t != "" && (tier == "") {
		tier = t
	}
	if tier != "quick" && tier != "thorough" {
		tier = "quick"
	}
	seed := uint64(20260925)
	if tier == "thorough" {
		seed = 777001
	}
	if v, err := strconv.ParseUint(os.Getenv("VERIF_SEED"), 10, 64); err == nil {
		seed = v
	}
	fmt.Printf("VERIF_SEED=%d property=%s tier=%s\n", seed, id, tier)
	bins := map[bool]string{}
	var rst *rewriteStats
	for _, f := range cd.families {
		if _, ok := bins[f.race]; ok {
			continue
		}
		b, st, err := buildSim(f.race)
		if err != nil {
			fmt.Fprintln(os.Stderr, "HARNESS: build/rewrite failed:", err)
			return 2
		}
		bins[f.race] = b
		if !f.race {
			rst = st
		}
	}
	budget := 8 * time.Minute
	if tier == "thorough" {
		budget = 45 * time.Minute
	}
	if v, err := time.ParseDuration(os.Getenv("VERIF_BUDGET")); err == nil {
		budget = v
	}
	deadline := start.Add(budget)
	// ---- determinism smoke: first indices of the first family twice, different GOMAXPROCS
	detOK, detN := true, 0
	{
		f := cd.families[0]
		var dj []job
		for i := 0; i < 4; i++ {
			dj = append(dj, job{fam: f, index: i, in: simInput{Mode: "gen", Family: f.family, Seed: seed, Index: i, Tier: tier}})
		}
		a := runJobs(bins, dj, 5*time.Minute, deadline)
		b := runJobs(bins, dj, 5*time.Minute, deadline)
		for i := range dj {
			if a[i] == nil || b[i] == nil || a[i].res == nil || b[i].res == nil {
				continue
			}
			detN++
			if a[i].res.TraceHash != b[i].res.TraceHash {
				detOK = false
				fmt.Fprintf(os.Stderr, "HARNESS: determinism smoke failed for %s index %d: %s vs %s\n", f.family, i, a[i].res.TraceHash, b[i].res.TraceHash)
			}
		}
		if !detOK {
			return 2
		}
	}
	// ---- the runs
	var jobs []job
	for _, f := range cd.families {
		n := f.quick
		if tier == "thorough" {
			n = f.thor
		}
		if v, err := strconv.Atoi(os.Getenv("VERIF_RUNS")); err == nil && v > 0 {
			n = v
		}
		// race-build runs cost about ten times a plain run: they keep the quick tier's run length
		// in both tiers (the thorough tier has more of them)
		jt := tier
		if f.race {
			jt = "quick"
		}
		for i := 0; i < n; i++ {
			jobs = append(jobs, job{fam: f, index: i, in: simInput{Mode: "gen", Family: f.family, Seed: seed, Index: i, Tier: jt}})
		}
	}
	outs := runJobs(bins, jobs, 10*time.Minute, deadline)
	// ---- aggregate
	agg := newAgg()
	var cands []candidate
	harnessTrouble := []string{}
	notes := map[string]int{}
	noteEx := map[string]string{}
	for i, o := range outs {
		if o == nil {
			agg.skipped++
			continue
		}
		agg.add(o)
		if o.res == nil {
			v, why := classifyDeathFor(o, id)
			if v == nil {
				rb := ""
				if jobs[i].fam.race {
					rb = " (race build)"
				}
				harnessTrouble = append(harnessTrouble, fmt.Sprintf("%s%s index %d: %s", jobs[i].fam.family, rb, jobs[i].index, why))
				continue
			}
			if v.Property == id {
				cands = append(cands, candidate{v: *v, o: o})
			} else {
				notes[v.Signature]++
				noteEx[v.Signature] = fmt.Sprintf("%s/%d", jobs[i].fam.family, jobs[i].index)
			}
			continue
		}
		if rv := raceViolation(o); rv != nil {
			if id == "C20" {
				cands = append(cands, candidate{v: *rv, o: o, spec: o.res.Spec})
			} else {
				notes[rv.Signature]++
			}
		}
		for _, v := range o.res.Violations {
			if v.Property == id {
				cands = append(cands, candidate{v: v, o: o, spec: o.res.Spec})
			} else {
				notes[v.Signature]++
				noteEx[v.Signature] = fmt.Sprintf("%s/%d", jobs[i].fam.family, jobs[i].index)
			}
		}
		if len(o.res.Stats.Unknown) > 0 {
			for q := range o.res.Stats.Unknown {
				agg.unknown[q]++
			}
		}
	}
	for sig, n := range notes {
		fmt.Printf("NOTE: violation of another property's monitor seen %d time(s): %s (e.g. %s seed %d)\n", n, sig, noteEx[sig], seed)
	}
	if len(harnessTrouble) > 0 {
		for _, h := range harnessTrouble {
			fmt.Fprintln(os.Stderr, "HARNESS:", h)
		}
		// show one stderr for diagnosis
		for _, o := range outs {
			if o != nil && o.res == nil {
				s := o.stderr
				if len(s) > 4000 {
					s = s[len(s)-4000:]
				}
				fmt.Fprintln(os.Stderr, s)
				break
			}
		}
		return 2
	}
	// ---- confirm, shrink, report
	known := loadKnown()
	if os.Getenv("VERIF_IGNORE_KNOWN") != "" { // debugging aid: produce replay files for listed findings
		known = nil
	}
	bySig := map[string][]candidate{}
	var sigs []string
	for _, c := range cands {
		if _, ok := bySig[c.v.Signature]; !ok {
			sigs = append(sigs, c.v.Signature)
		}
		bySig[c.v.Signature] = append(bySig[c.v.Signature], c)
	}
	sort.Strings(sigs)
	exit := 0
	violations := 0
	var knownSeen []string
	for _, sig := range sigs {
		c := bySig[sig][0]
		if k := matchKnown(known, sig); k != nil {
			fmt.Printf("KNOWN-FINDING: property=%s %s (%s; seen in %d run(s))\n", id, k.What, sig, len(bySig[sig]))
			knownSeen = append(knownSeen, sig)
			continue
		}
		path, ok, why := confirmAndShrink(bins[c.o.in.Family != "" && isRaceJob(c.o, jobs, outs)], id, c, tier)
		if !ok {
			fmt.Fprintf(os.Stderr, "HARNESS: violation %s did not replay identically (%s)\n", sig, why)
			return 2
		}
		violations++
		fmt.Printf("VIOLATION property=%s replay=%s\n", id, path)
		fmt.Printf("  signature: %s\n  detail: %s\n  seen in %d run(s)\n", sig, c.v.Detail, len(bySig[sig]))
		exit = 1
	}
	// ---- evidence
	wall := time.Since(start).Seconds()
	ev := agg.evidence(cd, id, tier, seed, wall, violations, knownSeen, rst, detN)
	os.MkdirAll(filepath.Join(verifDir, "evidence"), 0o755)
	eb, _ := json.MarshalIndent(ev, "", " ")
	if err := os.WriteFile(filepath.Join(verifDir, "evidence", id+".json"), eb, 0o644); err != nil {
		fmt.Fprintln(os.Stderr, "HARNESS: cannot write evidence:", err)
		return 2
	}
	fmt.Printf("runs=%d nontrivial_distinct=%d sim_seconds=%.0f wall=%.1fs violations=%d known=%d\n", agg.runs, len(agg.distinct), agg.simSeconds, wall, violations, len(knownSeen))
	if exit == 0 {
		// a required probe that never fired is a defect of the scenario generator, not success
		if miss := agg.missingProbes(id); len(miss) > 0 && os.Getenv("VERIF_RUNS") == "" {
			fmt.Fprintf(os.Stderr, "HARNESS: required probes never fired: %v\n", miss)
			return 2
		}
	}
	return exit
}

func isRaceJob(o *outcome, jobs []job, outs []*outcome) bool {
	for i := range outs {
		if outs[i] == o {
			return jobs[i].fam.race
		}
	}
	return false
}

func cmdReplay(file string, verbose bool) int {
	b, err := os.ReadFile(file)
	if err != nil {
		fmt.Fprintln(os.Stderr, err)
		return 2
	}
	var rf replayFile
	if err := json.Unmarshal(b, &rf); err != nil {
		fmt.Fprintln(os.Stderr, err)
		return 2
	}
	bin, _, err := buildSim(rf.Race)
	if err != nil {
		fmt.Fprintln(os.Stderr, "HARNESS: build failed:", err)
		return 2
	}
	o := runOne(bin, simInput{Mode: "replay", Spec: rf.Spec, Verbose: verbose}, 20*time.Minute)
	printOutcome(o)
	if o.res == nil {
		if v, _ := classifyDeathFor(o, rf.Property); v != nil && v.Signature == rf.Signature {
			fmt.Printf("VIOLATION property=%s replay=%s\n", rf.Property, file)
			return 1
		}
		return 2
	}
	if rv := raceViolation(o); rv != nil && rv.Signature == rf.Signature {
		fmt.Printf("VIOLATION property=%s replay=%s\n", rf.Property, file)
		return 1
	}
	for _, v := range o.res.Violations {
		if v.Signature == rf.Signature {
			fmt.Printf("VIOLATION property=%s replay=%s\n", rf.Property, file)
			return 1
		}
	}
	fmt.Println("replay did not reproduce the recorded violation on this tree")
	return 0
}

func cmdSelftest(n int) int {
	bin, st, err := buildSim(false)
	if err != nil {
		fmt.Fprintln(os.Stderr, "HARNESS: build failed:", err)
		return 2
	}
	fmt.Printf("rewrite: %+v\n", *st)
	fams := []string{"smoke", "singlefault", "switch", "lifecycle", "gates", "membership", "crashpoints", "lost", "maintenance", "repair", "recovery", "cascade", "offline", "disk", "optimization", "chaos", "lock", "dataplane"}
	if f := os.Getenv("VERIF_FAMILIES"); f != "" {
		fams = strings.Split(f, ",")
	}
	bins := map[bool]string{false: bin}
	bad := 0
	total := 0
	unknown := map[string]int{}
	for _, fam := range fams {
		var jobs []job
		for i := 0; i < n; i++ {
			jobs = append(jobs, job{fam: familyPlan{family: fam}, index: i, in: simInput{Mode: "gen", Family: fam, Seed: 4242, Index: i, Tier: "quick"}})
		}
		var hs [3][]*outcome
		for k := 0; k < 3; k++ {
			// same runtime configuration (GOMAXPROCS=1, async preemption off), different machine load
			os.Setenv("VERIF_WORKERS", []string{"3", "12", "24"}[k])
			hs[k] = runJobs(bins, jobs, 10*time.Minute, time.Now().Add(time.Hour))
		}
		os.Unsetenv("VERIF_WORKERS")
		fb := 0
		for i := range jobs {
			total++
			var h []string
			for k := 0; k < 3; k++ {
				if hs[k][i] == nil || hs[k][i].res == nil {
					h = append(h, fmt.Sprintf("dead(%d)", hs[k][i].exitCode))
				} else {
					h = append(h, hs[k][i].res.TraceHash)
					for q := range hs[k][i].res.Stats.Unknown {
						unknown[q]++
					}
				}
			}
			if h[0] != h[1] || h[1] != h[2] {
				fb++
				if fb <= 3 {
					fmt.Printf("NONDETERMINISTIC: family=%s index=%d hashes=%v\n", fam, i, h)
				}
			}
		}
		fmt.Printf("family %-12s %d seeds x 3 processes (3/12/24 concurrent runs): %d mismatches\n", fam, n, fb)
		bad += fb
	}
	if len(unknown) > 0 {
		fmt.Printf("UNKNOWN STATEMENTS: %v\n", unknown)
		bad++
	}
	if bad > 0 {
		return 2
	}
	fmt.Printf("determinism self-test passed: %d seeds\n", total)
	return 0
}
