package main

func cmdCheck(id, tier string) int   { return 2 }
func cmdReplay(f string, v bool) int { return 2 }
func cmdSelftest(n int) int          { return 2 }
