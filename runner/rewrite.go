package main

// Build-time mechanical rewrites of mysync's own packages (DESIGN.md §1.3), applied to the
// *current working tree* of /repo and fed to `go test -overlay`. Nothing is written to /repo.
//
//  1. `for k, v := range m` over a map  ->  `for k, v := range simrt.RangeMap("site", m)`
//  2. sync.Mutex / sync.RWMutex / sync.Once  ->  simrt.Mutex / simrt.RWMutex / simrt.Once
//
// The rewriter type-checks every package it touches from `go list -export` data and refuses
// to continue (exit 2 in the caller) if anything does not type-check.

import (
	"bytes"
	"encoding/json"
	"fmt"
	"go/ast"
	"go/format"
	"go/importer"
	"go/parser"
	"go/token"
	"go/types"
	"io"
	"os"
	"os/exec"
	"path/filepath"
	"sort"
	"strconv"
	"strings"
)

const modPath = "github.com/yandex/mysync"
const simrtPath = modPath + "/internal/verifsim/simrt"

// packages of mysync that are rewritten (everything the daemon itself consists of)
var rewritePkgs = []string{
	"internal/app", "internal/app/dcs", "internal/app/node_state", "internal/app/optimization",
	"internal/app/resetup", "internal/mysql", "internal/mysql/gtids", "internal/dcs",
	"internal/util", "internal/config", "internal/log",
}

type listPkg struct {
	Dir        string
	ImportPath string
	Export     string
	GoFiles    []string
	Error      *struct{ Err string }
}

func goEnv() []string {
	env := os.Environ()
	env = append(env, "GOFLAGS=-mod=mod", "GOPROXY=off", "GOSUMDB=off", "GOTOOLCHAIN=local", "CGO_ENABLED=0")
	return env
}

func goList(repo, modfile string, tags string) (map[string]*listPkg, error) {
	args := []string{"list", "-modfile=" + modfile, "-tags", tags, "-export", "-deps", "-json=Dir,ImportPath,Export,GoFiles,Error", "./internal/..."}
	cmd := exec.Command("go1.26.8", args...)
	cmd.Dir = repo
	cmd.Env = goEnv()
	var out, errb bytes.Buffer
	cmd.Stdout = &out
	cmd.Stderr = &errb
	if err := cmd.Run(); err != nil {
		return nil, fmt.Errorf("go list failed: %v\n%s", err, errb.String())
	}
	res := map[string]*listPkg{}
	dec := json.NewDecoder(&out)
	for {
		var p listPkg
		if err := dec.Decode(&p); err == io.EOF {
			break
		} else if err != nil {
			return nil, err
		}
		pp := p
		res[p.ImportPath] = &pp
	}
	return res, nil
}

type rewriteStats struct {
	MapRanges  int
	SyncTypes  int
	Selects    int
	Files      int
	FilesTotal int
}

// rewriteTree rewrites the listed packages; returns overlay entries original->replacement.
func rewriteTree(repo, modfile, outDir string) (map[string]string, *rewriteStats, error) {
	pkgs, err := goList(repo, modfile, "verif")
	if err != nil {
		return nil, nil, err
	}
	fset := token.NewFileSet()
	lookup := func(path string) (io.ReadCloser, error) {
		p := pkgs[path]
		if p == nil || p.Export == "" {
			return nil, fmt.Errorf("no export data for %s", path)
		}
		return os.Open(p.Export)
	}
	imp := importer.ForCompiler(fset, "gc", lookup)
	overlay := map[string]string{}
	st := &rewriteStats{}
	for _, rel := range rewritePkgs {
		ip := modPath + "/" + rel
		lp := pkgs[ip]
		if lp == nil {
			// package may have been removed/renamed in a modified tree: skip silently if dir is absent
			if _, err := os.Stat(filepath.Join(repo, rel)); err != nil {
				continue
			}
			return nil, nil, fmt.Errorf("package %s not listed", ip)
		}
		if lp.Error != nil {
			return nil, nil, fmt.Errorf("package %s: %s", ip, lp.Error.Err)
		}
		var files []*ast.File
		var names []string
		for _, f := range lp.GoFiles {
			full := filepath.Join(lp.Dir, f)
			af, err := parser.ParseFile(fset, full, nil, parser.ParseComments)
			if err != nil {
				return nil, nil, err
			}
			files = append(files, af)
			names = append(names, full)
		}
		info := &types.Info{Types: map[ast.Expr]types.TypeAndValue{}}
		conf := types.Config{Importer: imp, Error: nil}
		if _, err := conf.Check(ip, fset, files, info); err != nil {
			return nil, nil, fmt.Errorf("type-check %s: %v", ip, err)
		}
		for i, af := range files {
			st.FilesTotal++
			changed := rewriteFile(fset, af, info, names[i], repo, st)
			if !changed {
				continue
			}
			var buf bytes.Buffer
			if err := format.Node(&buf, fset, af); err != nil {
				return nil, nil, fmt.Errorf("print %s: %v", names[i], err)
			}
			relf, _ := filepath.Rel(repo, names[i])
			out := filepath.Join(outDir, "rw", relf)
			os.MkdirAll(filepath.Dir(out), 0o755)
			if err := os.WriteFile(out, buf.Bytes(), 0o644); err != nil {
				return nil, nil, err
			}
			overlay[names[i]] = out
			st.Files++
		}
	}
	return overlay, st, nil
}

func rewriteFile(fset *token.FileSet, af *ast.File, info *types.Info, name, repo string, st *rewriteStats) bool {
	changed := false
	syncName := ""
	for _, im := range af.Imports {
		p, _ := strconv.Unquote(im.Path.Value)
		if p == "sync" {
			syncName = "sync"
			if im.Name != nil {
				syncName = im.Name.Name
			}
		}
	}
	rel, _ := filepath.Rel(repo, name)
	if rewriteSelects(fset, af, rel, st) {
		changed = true
		// shared clause nodes are printed more than once: keep only build constraints as comments
		var keep []*ast.CommentGroup
		for _, cg := range af.Comments {
			if len(cg.List) > 0 && strings.HasPrefix(cg.List[0].Text, "//go:build") {
				keep = append(keep, cg)
			}
		}
		af.Comments = keep
	}
	ast.Inspect(af, func(n ast.Node) bool {
		switch x := n.(type) {
		case *ast.RangeStmt:
			if x.Key == nil && x.Value == nil {
				return true
			}
			tv, ok := info.Types[x.X]
			if !ok || tv.Type == nil {
				return true
			}
			if _, isMap := tv.Type.Underlying().(*types.Map); !isMap {
				return true
			}
			site := fmt.Sprintf("%s:%d", rel, fset.Position(x.Pos()).Line)
			fn := "RangeMap"
			if x.Value == nil {
				fn = "RangeMapKeys"
			}
			x.X = &ast.CallExpr{
				Fun:  &ast.SelectorExpr{X: ast.NewIdent("simrt"), Sel: ast.NewIdent(fn)},
				Args: []ast.Expr{&ast.BasicLit{Kind: token.STRING, Value: strconv.Quote(site)}, x.X},
			}
			st.MapRanges++
			changed = true
		case *ast.SelectorExpr:
			if syncName == "" {
				return true
			}
			id, ok := x.X.(*ast.Ident)
			if !ok || id.Name != syncName || id.Obj != nil {
				return true
			}
			switch x.Sel.Name {
			case "Mutex", "RWMutex", "Once":
				id.Name = "simrt"
				st.SyncTypes++
				changed = true
			}
		}
		return true
	})
	if !changed {
		return false
	}
	// is "sync" still used?
	stillSync := false
	if syncName != "" {
		ast.Inspect(af, func(n ast.Node) bool {
			if se, ok := n.(*ast.SelectorExpr); ok {
				if id, ok := se.X.(*ast.Ident); ok && id.Name == syncName && id.Obj == nil {
					stillSync = true
				}
			}
			return true
		})
	}
	// edit import decls
	addSimrt := true
	for _, d := range af.Decls {
		gd, ok := d.(*ast.GenDecl)
		if !ok || gd.Tok != token.IMPORT {
			continue
		}
		var specs []ast.Spec
		for _, s := range gd.Specs {
			is := s.(*ast.ImportSpec)
			p, _ := strconv.Unquote(is.Path.Value)
			if p == "sync" && !stillSync {
				continue
			}
			specs = append(specs, s)
		}
		if addSimrt {
			specs = append(specs, &ast.ImportSpec{Name: ast.NewIdent("simrt"), Path: &ast.BasicLit{Kind: token.STRING, Value: strconv.Quote(simrtPath)}})
			addSimrt = false
			if !gd.Lparen.IsValid() {
				gd.Lparen = gd.Pos()
				gd.Rparen = gd.End()
			}
		}
		gd.Specs = specs
	}
	if addSimrt {
		gd := &ast.GenDecl{Tok: token.IMPORT, Specs: []ast.Spec{&ast.ImportSpec{Name: ast.NewIdent("simrt"), Path: &ast.BasicLit{Kind: token.STRING, Value: strconv.Quote(simrtPath)}}}}
		af.Decls = append([]ast.Decl{gd}, af.Decls...)
	}
	// af.Imports is used by the printer only through Decls; fine.
	return true
}

// listGoFiles returns all .go files under dir (sorted), for hashing / overlay mapping.
func listGoFiles(dir string) []string {
	var res []string
	filepath.Walk(dir, func(p string, fi os.FileInfo, err error) error {
		if err != nil {
			return nil
		}
		if fi.IsDir() {
			if fi.Name() == ".git" {
				return filepath.SkipDir
			}
			return nil
		}
		if strings.HasSuffix(p, ".go") {
			res = append(res, p)
		}
		return nil
	})
	sort.Strings(res)
	return res
}

// rewriteSelects: a blocking `select` with several communication cases picks *randomly* among
// the cases that are ready at the same moment (runtime random, not seedable). It is rewritten to
// first poll the cases in a simulator-chosen priority order (non-blocking) and only then block on
// the original statement. Any choice among ready cases is legal Go; the order becomes a
// per-seed schedule choice (simrt.Flip) instead of a coin the simulator cannot replay.
func rewriteSelects(fset *token.FileSet, af *ast.File, rel string, st *rewriteStats) bool {
	changed := false
	done := map[*ast.SelectStmt]bool{}
	var visitBlock func(list []ast.Stmt)
	replace := func(sel *ast.SelectStmt) ast.Stmt {
		if done[sel] {
			return nil
		}
		var clauses []*ast.CommClause
		for _, c := range sel.Body.List {
			cc := c.(*ast.CommClause)
			if cc.Comm == nil {
				return nil // has a default: never blocks, nothing random about readiness ties worth fixing
			}
			clauses = append(clauses, cc)
		}
		if len(clauses) < 2 {
			return nil
		}
		hasLabel := false
		ast.Inspect(sel, func(n ast.Node) bool {
			if _, ok := n.(*ast.LabeledStmt); ok {
				hasLabel = true
			}
			return true
		})
		if hasLabel {
			return nil
		}
		var try func(order []*ast.CommClause) ast.Stmt
		try = func(order []*ast.CommClause) ast.Stmt {
			if len(order) == 0 {
				fb := &ast.SelectStmt{Body: &ast.BlockStmt{List: sel.Body.List}}
				done[fb] = true
				return fb
			}
			return &ast.SelectStmt{Body: &ast.BlockStmt{List: []ast.Stmt{
				order[0],
				&ast.CommClause{Comm: nil, Body: []ast.Stmt{try(order[1:])}},
			}}}
		}
		st.Selects++
		changed = true
		site := fmt.Sprintf("%s:%d", rel, fset.Position(sel.Pos()).Line)
		if len(clauses) == 2 {
			rev := []*ast.CommClause{clauses[1], clauses[0]}
			return &ast.IfStmt{
				Cond: &ast.CallExpr{Fun: &ast.SelectorExpr{X: ast.NewIdent("simrt"), Sel: ast.NewIdent("Flip")}, Args: []ast.Expr{&ast.BasicLit{Kind: token.STRING, Value: strconv.Quote(site)}}},
				Body: &ast.BlockStmt{List: []ast.Stmt{try(clauses)}},
				Else: &ast.BlockStmt{List: []ast.Stmt{try(rev)}},
			}
		}
		return try(clauses)
	}
	var visitStmt func(s ast.Stmt) ast.Stmt
	visitStmt = func(s ast.Stmt) ast.Stmt {
		switch x := s.(type) {
		case *ast.SelectStmt:
			for _, c := range x.Body.List {
				visitBlock(c.(*ast.CommClause).Body)
			}
			if r := replace(x); r != nil {
				return r
			}
		case *ast.LabeledStmt:
			// a labeled select/for keeps its label on the outermost new statement
			x.Stmt = visitStmt(x.Stmt)
		case *ast.BlockStmt:
			visitBlock(x.List)
		case *ast.IfStmt:
			visitBlock(x.Body.List)
			if x.Else != nil {
				x.Else = visitStmt(x.Else)
			}
		case *ast.ForStmt:
			visitBlock(x.Body.List)
		case *ast.RangeStmt:
			visitBlock(x.Body.List)
		case *ast.SwitchStmt:
			for _, c := range x.Body.List {
				visitBlock(c.(*ast.CaseClause).Body)
			}
		case *ast.TypeSwitchStmt:
			for _, c := range x.Body.List {
				visitBlock(c.(*ast.CaseClause).Body)
			}
		case *ast.GoStmt:
			if fl, ok := x.Call.Fun.(*ast.FuncLit); ok {
				visitBlock(fl.Body.List)
			}
		case *ast.DeferStmt:
			if fl, ok := x.Call.Fun.(*ast.FuncLit); ok {
				visitBlock(fl.Body.List)
			}
		}
		return s
	}
	visitBlock = func(list []ast.Stmt) {
		for i := range list {
			list[i] = visitStmt(list[i])
		}
	}
	// function literals anywhere (assigned to variables, passed as arguments)
	ast.Inspect(af, func(n ast.Node) bool {
		switch x := n.(type) {
		case *ast.FuncDecl:
			if x.Body != nil {
				visitBlock(x.Body.List)
			}
		case *ast.FuncLit:
			visitBlock(x.Body.List)
		}
		return true
	})
	return changed
}
