#!/bin/bash
# usage: mutwt.sh <name> <check id> <file> <old> <new> [seeds]
# like mut.sh, but edits a scratch worktree (/tmp/wt-mut) and points the check at it with
# VERIF_REPO, so that /repo stays untouched (development aid only)
name=$1; id=$2; file=$3; old=$4; new=$5; seeds=${6:-"20260925 1"}
wt=/tmp/wt-mut
[ -d $wt ] || git -C /repo worktree add --detach $wt HEAD >/dev/null 2>&1
git -C $wt checkout -q --detach $(git -C /repo rev-parse HEAD) 2>/dev/null; git -C $wt checkout -- .
cd $wt && python3 - "$file" "$old" "$new" <<'PY' || { echo "== $name: EDIT FAILED"; exit 1; }
import sys
p,old,new=sys.argv[1:4]
s=open(p).read()
assert old in s, "pattern not found"
s=s.replace(old,new,1)
open(p,'w').write(s)
PY
b=$(GOFLAGS=-mod=mod GOPROXY=off go build ./... 2>&1 | head -3)
[ -n "$b" ] && { echo "== $name: BUILD FAILED $b"; git -C $wt checkout -- .; exit 1; }
ut=$(GOFLAGS=-mod=mod GOPROXY=off go test -vet=off -count=1 ./internal/... 2>&1 | grep -c "^FAIL")
res=""
for sd in $seeds; do
  out=$(cd /verif && VERIF_REPO=$wt VERIF_SEED=$sd ./bin/check $id quick 2>&1 | egrep "signature|HARNESS" | head -3 | sed 's/.*signature: //' | tr '\n' ' ')
  res="$res [$sd: ${out:-MISSED}]"
done
echo "== $name [$id] unit-test-failures=$ut:$res"
git -C $wt checkout -- .
