#!/bin/bash
# usage: mut.sh <name> <check id> <file> <python-expr-old> <python-expr-new> [seeds]
name=$1; id=$2; file=$3; old=$4; new=$5; seeds=${6:-"20260925"}
cd /repo && python3 - "$file" "$old" "$new" <<'PY' || { echo "== $name: EDIT FAILED"; exit 1; }
import sys
p,old,new=sys.argv[1:4]
s=open(p).read()
assert old in s, "pattern not found"
s=s.replace(old,new,1)
open(p,'w').write(s)
PY
GOFLAGS=-mod=mod GOPROXY=off go build ./... 2>&1 | head -3
res=""
for sd in $seeds; do
  out=$(cd /verif && VERIF_SEED=$sd ./bin/check $id quick 2>&1 | egrep "^VIOLATION|signature|HARNESS" | head -4 | tr '\n' ' ')
  res="$res [$sd: ${out:-MISSED}]"
done
echo "== $name [$id]:$res"
git -C /repo checkout -- .
find /verif/replays -name '*.json' -newer /verif/bin/mut.sh -delete 2>/dev/null
