#!/bin/bash
# usage: seedtest.sh <property id> <n> [seeds] [extra check ids]
# Applies the seeded change /tmp/wt-<ID>-<n>/patch.diff (or /verif/seeded/<ID>-<n>/patch.diff) to /repo,
# runs the property's quick check per seed, reverts, and records the outcome in /verif/seeded/<ID>-<n>/.
id=$1; n=$2; seeds=${3:-"20260925 1 2"}; extra=$4
name=$id-$n
wt=/tmp/wt-$id-$n
dst=/verif/seeded/$name
mkdir -p $dst
if [ -f $wt/patch.diff ]; then
  cp $wt/patch.diff $dst/patch.diff
  [ -f $wt/DEMO.md ] && cp $wt/DEMO.md $dst/demonstration.md
  (cd $wt && git ls-files --others --exclude-standard | grep '_seeded_test.go$' | while read f; do cp $f $dst/$(basename $f).txt; done)
fi
cd /repo
if [ -n "$(git status --porcelain)" ]; then echo "== $name: /repo is not clean, refusing"; exit 1; fi
if ! git apply --check $dst/patch.diff 2>/dev/null; then
  # a failed 3-way merge leaves unmerged index entries which "checkout -- ." does not clear
  if ! git apply --3way $dst/patch.diff 2>/dev/null; then echo "== $name: PATCH DOES NOT APPLY"; git reset -q --hard HEAD; exit 1; fi
  git reset -q 2>/dev/null
else
  git apply $dst/patch.diff
fi
GOFLAGS=-mod=mod GOPROXY=off go build ./... 2>&1 | head -3
ut=$(GOFLAGS=-mod=mod GOPROXY=off go test -vet=off -count=1 ./internal/... 2>&1 | grep -c "^FAIL")
res="{"
first=1
for chk in $id $extra; do
for sd in $seeds; do
  out=$(cd /verif && VERIF_SEED=$sd ./bin/check $chk quick 2>&1)
  sig=$(echo "$out" | grep "signature:" | head -3 | sed 's/.*signature: //' | tr '\n' ' ')
  harn=$(echo "$out" | grep -c "^HARNESS")
  v="missed"
  if echo "$out" | grep -q "^VIOLATION property=$chk"; then v="caught"; fi
  if [ "$harn" != "0" ] && [ "$v" = "missed" ]; then v="harness:$(echo "$out" | grep '^HARNESS' | head -1 | cut -c1-120)"; fi
  [ $first = 1 ] || res="$res,"
  first=0
  res="$res\"$chk/$sd\":{\"outcome\":\"$v\",\"signatures\":\"$sig\"}"
  echo "== $name [$chk seed $sd]: $v $sig"
done
done
res="$res}"
git -C /repo reset -q --hard HEAD
find /verif/replays -name '*.json' -newer /verif/bin/seedtest.sh -delete 2>/dev/null
python3 - "$dst" "$id" "$name" "$ut" "$res" <<'PY'
import json,sys,os
dst,pid,name,ut,res=sys.argv[1:6]
meta={}
p=os.path.join(dst,'meta.json')
if os.path.exists(p):
    meta=json.load(open(p))
meta.update({"name":name,"property":pid,"origin":"fresh sub-agent given only the property text and a scratch worktree","unit_test_packages_failing_with_change":int(ut),"results":json.loads(res)})
json.dump(meta,open(p,'w'),indent=1)
PY
