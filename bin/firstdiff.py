import sys,re
a=open(sys.argv[1]).read().split('\n'); b=open(sys.argv[2]).read().split('\n')
N=int(sys.argv[3]) if len(sys.argv)>3 else 6
norm=lambda l: re.sub(r'^\d+ ','',re.sub(r'"pid":\d+','"pid":0',l))
for i,(x,y) in enumerate(zip(a,b)):
    if norm(x)!=norm(y):
        print("first diff at line",i+1)
        for l in a[max(0,i-N):i+N]: print("A",l[:230])
        print("-----")
        for l in b[max(0,i-N):i+N]: print("B",l[:230])
        break
else:
    print("same prefix; lens",len(a),len(b))
