package verifsim

import (
	"encoding/json"
	"fmt"
	"sort"
	"strings"
	"time"
)

// C09 - maintenance freezes automation; leaving re-learns the real master.
type orC09 struct {
	baseOracle
	exists         bool
	mode           string // full | light
	acked          bool
	leaving        bool
	ackT           time.Duration
	ackSeq         uint64
	lightAckT      time.Duration
	attempts       map[string]int      // per incarnation: leave attempts seen with several masters
	aware          map[string]bool     // hosts whose daemon has read the acknowledged record (and so wrote its maintenance file)
	mastersAtEnter map[string][]string // per incarnation: alive masters when its current Maintenance iteration began
	noMgrSince     time.Duration       // light maintenance: since when nobody holds the manager lock (-1: somebody does)
	served         map[string]bool     // hosts whose daemon received (reply delivered) a read of the acknowledged record
}

// onZKReply: the reply of a successful read reached the client
func (o *orC09) onZKReply(e *ZKEvent) {
	if !o.m.primary["C09"] || e.Path != "/test/maintenance" || !o.m.isDaemon(e.Inc) || !strings.Contains(e.Data, `"mysync_paused":true`) {
		return
	}
	if o.served == nil {
		o.served = map[string]bool{}
	}
	o.served[srcHostOf(e.Inc)] = true
}

func (o *orC09) name() string { return "C09" }

type maintJSON struct {
	MySyncPaused bool   `json:"mysync_paused"`
	ShouldLeave  bool   `json:"should_leave"`
	Mode         string `json:"mode"`
}

// frozen: full maintenance acknowledged and not being left
func (o *orC09) frozen() bool { return o.exists && o.mode != "light" && o.acked && !o.leaving }

func (o *orC09) onZK(e *ZKEvent) {
	m := o.m
	s := m.s
	if !m.primary["C09"] || e.Err != 0 {
		return
	}
	if e.Path == "/test/maintenance" {
		switch e.Op {
		case "create", "set":
			var mj maintJSON
			if json.Unmarshal([]byte(e.Data), &mj) != nil {
				return
			}
			wasFrozen := o.frozen()
			o.exists = true
			o.mode = mj.Mode
			if o.mode == "" {
				o.mode = "full"
			}
			if mj.MySyncPaused && m.isDaemon(e.Inc) {
				if o.aware == nil {
					o.aware = map[string]bool{}
				}
				o.aware[srcHostOf(e.Inc)] = true
			}
			if mj.MySyncPaused && !o.acked {
				o.ackT, o.ackSeq = e.T, e.Seq
				m.probe("c09_maintenance_acknowledged_" + o.mode)
			}
			o.acked = mj.MySyncPaused
			o.leaving = mj.ShouldLeave
			if wasFrozen && !o.frozen() {
				m.probe("c09_freeze_ended")
			}
		case "delete":
			if m.isDaemon(e.Inc) {
				o.checkLeave(e)
			}
			o.exists, o.acked, o.leaving, o.mode = false, false, false, ""
			o.aware, o.served = nil, nil
		}
		return
	}
	// recorded master / active list are frozen too
	if o.frozen() && o.isMysync(e.Inc) && (e.Path == "/test/master" || e.Path == "/test/active_nodes") && (e.Op == "set" || e.Op == "create" || e.Op == "delete") {
		it := m.iters[e.Inc]
		if it != nil && it.open && it.startT < o.ackT {
			return // an iteration that began before the acknowledgement
		}
		m.violate("C09", "frozen_record_changed", "recorded-state-changed-in-full-maintenance:"+strings.TrimPrefix(e.Path, "/test/"), fmt.Sprintf("%s %s %s = %s while full maintenance is acknowledged (since %v)", e.Inc, e.Op, e.Path, e.Data, o.ackT))
	}
	if e.Path == "/test/switch" && (e.Op == "set" || e.Op == "delete") && m.isDaemon(e.Inc) {
		if it := m.iters[e.Inc]; it != nil && it.open && it.state == "Manager" {
			if r, ok := lastReadIn(it, "maintenance", e.Seq); ok && r.err == 0 && strings.Contains(r.data, `"mode":"light"`) {
				if sr, ok := lastReadIn(it, "switch", e.Seq); ok && sr.err == 0 && strings.Contains(sr.data, `"master_transition":"failover"`) {
					m.violate("C09", "light_failover_processed", "failover-request-processed-in-light-maintenance", fmt.Sprintf("%s %s the failover request %s during light maintenance (it is to stay pending, neither started nor rejected)", e.Inc, e.Op, sr.data))
				}
			}
		}
	}
	if e.Path == "/test/switch" && e.Op == "create" && m.isDaemon(e.Inc) {
		// failover filed by a daemon that had read a light-maintenance record in this iteration
		if it := m.iters[e.Inc]; it != nil && it.open {
			if r, ok := lastReadIn(it, "maintenance", e.Seq); ok && r.err == 0 && strings.Contains(r.data, `"mode":"light"`) {
				m.violate("C09", "light_failover_filed", "failover-filed-in-light-maintenance", fmt.Sprintf("%s filed %s although it had read light maintenance %s", e.Inc, e.Data, r.data))
			}
		}
	}
	_ = s
}

// light maintenance does not stop the election: while it is acknowledged, some living daemon
// that can reach ZooKeeper takes the manager lock within a few ticks
func (o *orC09) afterEvent() {
	m := o.m
	s := m.s
	if !m.primary["C09"] {
		return
	}
	if !(o.exists && o.mode == "light" && o.acked && !o.leaving) || m.lockOwner != "" || s.net.zkDown {
		if o.noMgrSince >= 0 && m.lockOwner != "" && o.exists && o.mode == "light" {
			m.probe("c09_light_manager_reelected")
		}
		o.noMgrSince = -1
		return
	}
	now := s.now()
	if o.noMgrSince < 0 {
		o.noMgrSince = now
		return
	}
	cfg := &s.spec.Cfg
	bound := 6*ms(cfg.TickMs) + 2*ms(cfg.SessionTimeoutMs) + 5*time.Second
	if now-o.noMgrSince <= bound {
		return
	}
	var able []string
	for _, d := range s.daemons {
		if d.kind == "daemon" && d.alive && d.startedAt < o.noMgrSince && !s.net.blocked(d.host, "zk") && m.isHA(d.host) {
			able = append(able, d.inc)
		}
	}
	if len(able) > 0 {
		sort.Strings(able)
		m.violate("C09", "light_no_manager", "nobody-manages-in-light-maintenance", fmt.Sprintf("light maintenance is acknowledged and for %v nobody has held the manager lock although %v are alive and connected", now-o.noMgrSince, able))
		o.noMgrSince = now
	}
}

// a daemon that reached the Maintenance state knows (and has written its maintenance file)
func (o *orC09) onIterEnter(it *iterRec) {
	if !o.m.primary["C09"] || it.state != "Maintenance" {
		return
	}
	if o.mastersAtEnter == nil {
		o.mastersAtEnter = map[string][]string{}
	}
	o.mastersAtEnter[it.inc] = o.aliveMasters(srcHostOf(it.inc))
	if !o.exists {
		return
	}
	if o.aware == nil {
		o.aware = map[string]bool{}
	}
	o.aware[srcHostOf(it.inc)] = true
}

func (o *orC09) isMysync(src string) bool {
	d := o.m.s.daemons[src]
	return d != nil && (d.kind == "daemon" || d.kind == "cli")
}

func (o *orC09) onSQL(e *SQLEvent) {
	m := o.m
	if !m.primary["C09"] || !e.Mutating || !m.isDaemon(e.Src) {
		return
	}
	if e.Kind == "kill" || strings.HasPrefix(e.Query, "KILL") {
		return
	}
	if o.frozen() && e.Applied && e.Effective && e.Issued > o.ackT && (e.It == nil || e.It.startT >= o.ackT) {
		m.probe("c09_statement_in_frozen_interval")
		state := "background"
		if e.It != nil {
			state = e.It.state
		}
		// did this host's daemon ever see the acknowledged record? (the acknowledging manager did)
		aw := "unaware-no-read" // never received the acknowledged record
		if o.aware[srcHostOf(e.Src)] {
			aw = "aware"
		} else if o.served[srcHostOf(e.Src)] {
			aw = "unaware-after-read" // received it and still did not pause
		}
		m.violate("C09", "frozen_sql", "server-changed-in-full-maintenance:"+state+":"+aw+":"+shortStmt(e.Query), fmt.Sprintf("%s (%s, %s of the acknowledgement) sent %q to %s at %v while full maintenance is acknowledged since %v", e.Src, state, aw, e.Query, e.Dst, e.Issued, o.ackT))
	}
	// light maintenance: a failover-transition request is not executed
	if it := e.It; it != nil && e.Src == it.inc && it.state == "Manager" && e.Query == "SET GLOBAL read_only = 0" && e.Applied && e.Effective && e.Dst != m.master {
		if r, ok := lastReadIn(it, "maintenance", e.Seq); ok && r.err == 0 && strings.Contains(r.data, `"mode":"light"`) {
			if sr, ok := lastReadIn(it, "switch", e.Seq); ok && sr.err == 0 && strings.Contains(sr.data, `"master_transition":"failover"`) {
				m.violate("C09", "light_failover_executed", "failover-executed-in-light-maintenance", fmt.Sprintf("%s promoted %s executing failover request %s during light maintenance", e.Src, e.Dst, sr.data))
			}
		}
	}
}

func shortStmt(q string) string {
	f := strings.Fields(q)
	if len(f) > 3 {
		f = f[:3]
	}
	return strings.Join(f, "_")
}

// aliveMasters: registered hosts that are up, reachable from host `from` and have no replication channel
func (o *orC09) aliveMasters(from string) []string {
	s := o.m.s
	var r []string
	for _, sv := range s.mysql.sorted() {
		if !(o.m.isHA(sv.Name) || o.m.isCascade(sv.Name)) || !sv.Up || sv.HasChannel {
			continue
		}
		if from != "" && s.net.blocked(from, sv.Name) {
			continue
		}
		r = append(r, sv.Name)
	}
	sort.Strings(r)
	return r
}

func (o *orC09) checkLeave(e *ZKEvent) {
	m := o.m
	s := m.s
	m.probe("c09_maintenance_left")
	it := m.iters[e.Inc]
	if it == nil {
		return
	}
	for _, sv := range s.mysql.sorted() {
		if sv.lastWorldChange >= it.startT {
			return // the operator changed something during the leave itself
		}
	}
	for _, x := range it.sql {
		if x.Src == it.inc && !x.toldOK() {
			return // some server did not answer the manager in this iteration: its view is what counts
		}
	}
	// the masters there were when the leave began (mysync's own repair during the leave may
	// already have demoted one of two)
	masters := o.mastersAtEnter[e.Inc]
	if it.state != "Maintenance" {
		masters = o.aliveMasters(srcHostOf(e.Inc))
	}
	if len(masters) != 1 {
		m.violate("C09", "left_without_single_master", "maintenance-left-without-exactly-one-alive-master", fmt.Sprintf("%s deleted the maintenance record; when this leave began the alive masters were %v", e.Inc, masters))
		return
	}
	m.probe("c09_leave_checked")
	if m.master != masters[0] {
		m.violate("C09", "left_wrong_master", "maintenance-left-with-wrong-recorded-master", fmt.Sprintf("%s deleted the maintenance record: recorded master %q, the one alive master is %s", e.Inc, m.master, masters[0]))
	}
	raw, ok := s.zk.get("/test/active_nodes")
	if !ok || len(parseStrList(raw)) == 0 {
		m.violate("C09", "left_empty_active", "maintenance-left-with-empty-active-list", fmt.Sprintf("%s deleted the maintenance record while the active list is %q", e.Inc, raw))
	}
}

func (o *orC09) onIterLeave(it *iterRec) {
	m := o.m
	s := m.s
	if !m.primary["C09"] || it.state != "Maintenance" || !it.ownedLock {
		return
	}
	// a leave attempt: the record said "leave" (or was gone) and the iteration went on to
	// re-read the host registry (leaveMaintenance -> UpdateHostsInfo)
	probed := false
	var leaveSeq uint64
	for _, r := range it.reads {
		if r.path == "maintenance" && r.op == "get" && (r.err == -101 || (r.err == 0 && strings.Contains(r.data, `"should_leave":true`))) {
			leaveSeq = r.seq
		}
		if leaveSeq > 0 && r.seq > leaveSeq && r.path == "ha_nodes" && r.op == "children" && r.err == 0 {
			probed = true
		}
	}
	for _, e := range it.sql {
		if e.Src == it.inc && !e.toldOK() {
			return
		}
	}
	if !probed || it.faults > 0 {
		return
	}
	for _, sv := range s.mysql.sorted() {
		if sv.lastWorldChange >= it.startT {
			return
		}
	}
	masters := o.aliveMasters(srcHostOf(it.inc))
	if len(masters) < 2 {
		return
	}
	m.probe("c09_leave_attempt_with_several_masters")
	if _, ok := s.zk.get("/test/maintenance"); !ok {
		return // reported at the delete
	}
	if !s.fileExists(srcHostOf(it.inc), "emerge") {
		m.violate("C09", "no_emergency_marker", "several-masters-at-leave-without-emergency-marker", fmt.Sprintf("%s tried to leave maintenance with alive masters %v and wrote no emergency file", it.inc, masters))
	}
}

// final: a full/light maintenance that was asked to end while exactly one alive master and a
// replicating HA replica existed for long enough has ended.
func (o *orC09) atEnd() {
	m := o.m
	s := m.s
	if !m.primary["C09"] || !o.exists || !o.leaving || !o.acked {
		return // (a request that was never acknowledged is outside this check, see DESIGN)
	}
	now := s.now()
	settle := 15*ms(s.spec.Cfg.TickMs) + 15*time.Second
	for _, sv := range s.mysql.sorted() {
		if now-sv.lastWorldChange < settle {
			return
		}
	}
	if m.lockOwner == "" || now-m.lockSince < settle || s.net.zkDown || len(s.net.block) > 0 {
		return
	}
	if r := s.spec.Rates; r.ToMs > 0 && ms(r.ToMs) > now-settle {
		return
	}
	masters := o.aliveMasters(srcHostOf(m.lockOwner))
	if len(masters) != 1 {
		return
	}
	okReplica := false
	for _, sv := range s.mysql.sorted() {
		if m.isHA(sv.Name) && sv.Up && sv.HasChannel && sv.Source == masters[0] && sv.IORun && sv.SQLRun && !sv.IOConnecting && sv.LastIOErrno == 0 && sv.LastSQLErrno == 0 {
			okReplica = true
		}
	}
	if !okReplica {
		return
	}
	m.probe("c09_final_leave_checked")
	m.violate("C09", "leave_stuck", "maintenance-not-left-with-one-alive-master", fmt.Sprintf("leaving was requested, %v later the one alive master is %s with a replicating replica, and the maintenance record still exists", settle, masters[0]))
}
