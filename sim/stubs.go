package verifsim

func genLifecycle(r *rng, i int) *Spec    { return genSmoke(r) }
func genGates(r *rng, i int) *Spec        { return genSmoke(r) }
func genMembership(r *rng, i int) *Spec   { return genSmoke(r) }
func genCrashpoints(r *rng, i int) *Spec  { return genSmoke(r) }
func genLost(r *rng, i int) *Spec         { return genSmoke(r) }
func genMaintenance(r *rng, i int) *Spec  { return genSmoke(r) }
func genRepair(r *rng, i int) *Spec       { return genSmoke(r) }
func genRecovery(r *rng, i int) *Spec     { return genSmoke(r) }
func genCascade(r *rng, i int) *Spec      { return genSmoke(r) }
func genOffline(r *rng, i int) *Spec      { return genSmoke(r) }
func genDisk(r *rng, i int) *Spec         { return genSmoke(r) }
func genOptimization(r *rng, i int) *Spec { return genSmoke(r) }
func genChaos(r *rng, i int, tier string) *Spec { return genSmoke(r) }
func genLock(r *rng, i int) *Spec         { return genSmoke(r) }
func genDataplane(r *rng, i int) *Spec    { return genSmoke(r) }

func runEngineB(s *Sim) *Result { return s.result() }

func (s *Sim) pilotCall(owner, key string) {}

func (m *Monitors) nontrivial() bool { return m.faultsTotal > 0 }
