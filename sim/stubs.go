package verifsim

func (s *Sim) pilotCall(owner, key string) {}

// nontrivial: per-family rule (reported in the evidence 'rule' text)
func (m *Monitors) nontrivial() bool {
	if m.s.spec.Engine == "B" {
		return m.opsDone >= 5
	}
	if m.faultsTotal > 0 || len(m.s.spec.Timeline) > 0 || m.s.spec.CrashAt != nil {
		return true
	}
	for _, h := range m.s.spec.Hosts {
		if h.Init != nil {
			return true // perturbed initial state is the stimulus
		}
	}
	return false
}
