package verifsim

import "fmt"

// family lifecycle (C06)
func genLifecycle(r *rng, index int) *Spec {
	sp := baseSpec(r, shapeOpt{minHA: 2, maxHA: 4, cascade: 0.15})
	c := &sp.Cfg
	c.SwitchoverMaxAttempts = []int{1, 3, 60}[index%3]
	c.SwitchoverTimeoutMs = []int64{30000, 120000}[(index/3)%2]
	c.FailoverCooldownMs = 0
	c.FailoverDelayMs = int64(r.pickInt(0, 2000, 5000))
	c.SlaveCatchUpTimeoutMs = int64(r.pickInt(8000, 15000))
	c.ForceSwitchover = r.chance(0.15)
	ha := sp.haNames()
	master := ha[0]
	T0 := int64(12000 + r.intn(5000))
	kind := []string{"to", "from", "worker", "failover_flag", "auto_kill_mysql", "concurrent_cli", "to", "from"}[index%8]
	var v string
	target := ha[1+r.intn(len(ha)-1)]
	switch kind {
	case "concurrent_cli":
		n := r.rangeInt(2, 3)
		for i := 0; i < n; i++ {
			h := ha[i%len(ha)]
			ev := TLEvent{AtMs: T0 + int64(r.intn(40)), Host: h}
			if r.chance(0.5) {
				ev.Kind, ev.Arg = "cli_switch_to", ha[1+r.intn(len(ha)-1)]
			} else {
				ev.Kind, ev.Arg = "cli_switch_from", master
			}
			sp.Timeline = append(sp.Timeline, ev)
		}
	case "to":
		sp.Timeline = append(sp.Timeline, TLEvent{AtMs: T0, Kind: "cli_switch_to", Host: ha[r.intn(len(ha))], Arg: target})
	default:
		v = addSwitchRequest(sp, r, kind, T0)
	}
	// MySQL-side trouble that makes attempts fail for a seed-chosen long time
	trouble := []string{"none", "freeze_io_fails", "old_master_ro_fails", "target_dead", "catchup_never", "change_master_fails", "ping_dubious", "freeze_io_fails"}[r.intn(8)]
	dur := int64(r.pickInt(10000, 40000, 90000, 200000))
	stopIO := "STOP REPLICA IO_THREAD"
	chg := "CHANGE REPLICATION SOURCE"
	if sp.World.MySQLVersion[0] == 5 {
		stopIO, chg = "STOP SLAVE IO_THREAD", "CHANGE MASTER"
	}
	switch trouble {
	case "freeze_io_fails":
		for _, h := range ha[1:] {
			sp.StmtFail = append(sp.StmtFail, StmtFail{Host: h, Prefix: stopIO, Errno: 1105, FromMs: T0 - 1000, ToMs: T0 + dur})
		}
	case "old_master_ro_fails":
		sp.StmtFail = append(sp.StmtFail, StmtFail{Host: master, Prefix: "SET GLOBAL super_read_only", Errno: 1205, FromMs: T0 - 1000, ToMs: T0 + dur})
	case "target_dead":
		sp.Timeline = append(sp.Timeline, TLEvent{AtMs: T0 + int64(r.intn(3000)), Kind: "kill_mysql", Host: target, Fault: true, DurMs: dur})
	case "catchup_never":
		for i := range sp.Hosts {
			if sp.Hosts[i].Role == "ha" && sp.Hosts[i].Name != master {
				sp.Hosts[i].Init = &InitState{ApplyDelayMs: 3000}
			}
		}
		sp.World.ClientWriteMs = 150
	case "change_master_fails":
		for _, h := range ha {
			sp.StmtFail = append(sp.StmtFail, StmtFail{Host: h, Prefix: chg, Errno: 1105, FromMs: T0 - 1000, ToMs: T0 + dur})
		}
	case "ping_dubious":
		sp.StmtFail = append(sp.StmtFail, StmtFail{Host: target, Prefix: "SELECT 1 AS Ok", Errno: 1040, FromMs: T0 - 1000, ToMs: T0 + dur})
	}
	if r.chance(0.2) {
		sp.Timeline = append(sp.Timeline, TLEvent{AtMs: T0 + int64(r.intn(30000)), Kind: "abort_switch"})
	}
	if r.chance(0.1) {
		sp.Timeline = append(sp.Timeline, TLEvent{AtMs: T0 + 2000 + int64(r.intn(8000)), Kind: "cli_maint_on", Host: ha[0], Arg: r.pick("light", "full")})
		sp.Timeline = append(sp.Timeline, TLEvent{AtMs: T0 + 20000 + int64(r.intn(20000)), Kind: "cli_maint_off", Host: ha[0]})
	}
	sp.World.AutoResetupMs = 10000
	sp.Variant = fmt.Sprintf("%s %s trouble=%s dur=%d max_attempts=%d timeout=%d", kind, v, trouble, dur, c.SwitchoverMaxAttempts, c.SwitchoverTimeoutMs)
	sp.DurationMs = T0 + c.SwitchoverTimeoutMs + 45000
	if dur+30000 < c.SwitchoverTimeoutMs {
		sp.DurationMs = T0 + dur + 60000
	}
	sp.Primary = []string{"C06"}
	return sp
}
