package verifsim

import (
	"fmt"
)

// generate builds the explicit scenario spec for (family, seed, index). Pure function.
func generate(family string, seed uint64, tier string, index int) *Spec {
	r := newRng(seed, family+"/"+fmt.Sprint(index))
	var sp *Spec
	switch family {
	case "smoke":
		sp = genSmoke(r)
	case "singlefault":
		sp = genSingleFault(r, index)
	case "switch":
		sp = genSwitch(r, index)
	case "lifecycle":
		sp = genLifecycle(r, index)
	case "gates":
		sp = genGates(r, index)
	case "membership":
		sp = genMembership(r, index)
	case "crashpoints":
		// scenario and crash point are independent dimensions: the same scenario is repeated with
		// every crash point n (thorough: all n = 1..crashN; quick: every 4th n per scenario)
		stride := 4
		if tier == "thorough" {
			stride = 1
		}
		per := crashN / stride
		sp = genCrashpoints(newRng(seed, fmt.Sprintf("crashpoints/scen/%d", index/per)), index, stride)
	case "lost":
		sp = genLost(r, index)
	case "maintenance":
		sp = genMaintenance(r, index)
	case "repair":
		sp = genRepair(r, index)
	case "recovery":
		sp = genRecovery(r, index)
	case "cascade":
		sp = genCascade(r, index)
	case "offline":
		sp = genOffline(r, index)
	case "disk":
		sp = genDisk(r, index)
	case "optimization":
		sp = genOptimization(r, index)
	case "chaos":
		sp = genChaos(r, index, tier)
	case "lock":
		sp = genLock(r, index)
	case "dataplane":
		sp = genDataplane(r, index)
	default:
		return nil
	}
	sp.Family = family
	sp.Seed = (seed*1000003 + uint64(index)) & ((1 << 50) - 1)
	return sp
}

func pb(b bool) *bool     { return &b }
func ps(s string) *string { return &s }
func pi(i int) *int       { return &i }

type shapeOpt struct {
	minHA, maxHA int
	cascade      float64 // probability of one cascade replica
	semiSync     *bool
}

func baseSpec(r *rng, o shapeOpt) *Spec {
	if o.minHA == 0 {
		o.minHA, o.maxHA = 2, 4
	}
	nHA := o.minHA
	if o.maxHA > o.minHA {
		// bias to 3
		nHA = r.pickInt(rangeInts(o.minHA, o.maxHA)...)
		if r.chance(0.4) && 3 >= o.minHA && 3 <= o.maxHA {
			nHA = 3
		}
	}
	sp := &Spec{}
	for i := 0; i < nHA; i++ {
		sp.Hosts = append(sp.Hosts, HostSpec{Name: fmt.Sprintf("h%d", i+1), Role: "ha"})
	}
	if r.chance(o.cascade) {
		from := fmt.Sprintf("h%d", r.rangeInt(1, nHA))
		sp.Hosts = append(sp.Hosts, HostSpec{Name: "c1", Role: "cascade", StreamFrom: from})
	}
	semi := r.chance(0.85)
	if o.semiSync != nil {
		semi = *o.semiSync
	}
	c := &sp.Cfg
	c.TickMs = int64(r.pickInt(1000, 1500, 2000, 3000))
	c.HealthMs = int64(r.pickInt(1000, 1500, 2000, 3000))
	c.RecoveryMs = int64(r.pickInt(1000, 2000, 3000))
	c.SessionTimeoutMs = int64(r.pickInt(2000, 3000, 4000, 6000))
	c.LockHeldTTLMs = int64(r.pickInt(0, 1000, 30000))
	c.SemiSync = semi
	c.WaitSlaveCount = r.pickInt(1, 1, 2)
	c.Failover = true
	c.FailoverDelayMs = int64(r.pickInt(0, 2000, 5000, 10000))
	c.FailoverCooldownMs = int64(r.pickInt(0, 30000, 3600000))
	c.InactivationDelayMs = int64(r.pickInt(3000, 6000, 15000))
	c.MasterFirstSSOrder = r.chance(0.5)
	c.ForceSwitchover = r.chance(0.2)
	c.DBTimeoutMs = int64(r.pickInt(1000, 2000, 3000))
	c.DBLostCheckTimeoutMs = int64(r.pickInt(1000, 2000))
	c.DBSetRoTimeoutMs = int64(r.pickInt(3000, 5000, 8000))
	c.DBSetRoForceTimeoutMs = int64(r.pickInt(5000, 10000))
	c.SwitchoverTimeoutMs = int64(r.pickInt(60000, 120000))
	c.SwitchoverMaxAttempts = r.pickInt(3, 60)
	c.SlaveCatchUpTimeoutMs = int64(r.pickInt(10000, 30000))
	c.WaitReplStartMs = int64(r.pickInt(2000, 5000))
	c.DisableSSOnMaint = r.chance(0.5)
	c.RepairCooldownMs = int64(r.pickInt(5000, 20000))
	c.RepairMaxAttempts = r.pickInt(1, 2, 3)
	c.SemiSyncEnableLag = 100 * 1024 * 1024
	c.ReplConvergenceTimeoutMs = 20000
	c.OptHighMs, c.OptLowMs = 120000, 60000
	w := &sp.World
	w.MySQLVersion = [][3]int{{5, 7, 40}, {8, 0, 32}, {8, 4, 0}}[r.intn(3)]
	w.ReplTickMs = int64(r.pickInt(20, 50, 100, 150))
	w.ClientWriteMs = int64(r.pickInt(300, 700, 1500))
	w.Clients = r.pickInt(1, 2)
	w.InitialTxns = r.rangeInt(3, 30)
	w.TxnSize = 1000
	w.PreConverged = true
	sp.DurationMs = 120000
	return sp
}

func rangeInts(lo, hi int) []int {
	var r []int
	for i := lo; i <= hi; i++ {
		r = append(r, i)
	}
	return r
}

func (sp *Spec) haNames() []string {
	var r []string
	for _, h := range sp.Hosts {
		if h.Role == "ha" {
			r = append(r, h.Name)
		}
	}
	return r
}

// livenessBound B (DESIGN §5) in ms for the generated configuration
func (sp *Spec) boundMs() int64 {
	c := &sp.Cfg
	return 40*c.TickMs + c.SessionTimeoutMs + c.FailoverDelayMs + c.InactivationDelayMs + c.SlaveCatchUpTimeoutMs/2 + 30000
}

func genSmoke(r *rng) *Spec {
	sp := baseSpec(r, shapeOpt{minHA: 3, maxHA: 3})
	sp.World.PreConverged = false
	sp.Cfg.FailoverDelayMs = 5000
	sp.Timeline = []TLEvent{
		{AtMs: 40000, Kind: "kill_host", Host: "h1", Fault: true},
	}
	sp.DurationMs = 120000
	sp.Primary = []string{"C02"}
	return sp
}
