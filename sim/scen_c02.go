package verifsim

import "fmt"

// family singlefault (C02): converged semi-sync cluster, exactly one fault, heal, converge.
func genSingleFault(r *rng, index int) *Spec {
	sp := baseSpec(r, shapeOpt{minHA: 2, maxHA: 4, cascade: 0.4, semiSync: pb(true)})
	c := &sp.Cfg
	c.Failover = r.chance(0.8)
	c.FailoverCooldownMs = 0
	c.ForceSwitchover = false
	sp.World.AutoResetupMs = 8000
	ha := sp.haNames()
	var targets []string
	targets = append(targets, ha...)
	for _, h := range sp.Hosts {
		if h.Role == "cascade" {
			targets = append(targets, h.Name)
		}
	}
	// stratify kinds by index so that the quick tier covers every kind
	kinds := []string{"kill_mysql", "kill_host", "kill_daemon", "isolate_blackhole", "isolate_reject", "cut_zk", "zk_down", "switch_to", "switch_from", "stop_daemon"}
	kind := kinds[index%len(kinds)]
	target := targets[r.intn(len(targets))]
	if index%3 == 0 {
		target = ha[0] // the master, most interesting
	}
	// an isolated master with clients on its side of the cut is where acknowledgements can go wrong
	if (kind == "isolate_blackhole" || kind == "isolate_reject") && r.chance(0.5) {
		target = ha[0]
	}
	// the master loses only its health record while every HA replica keeps streaming: a cascade
	// replica must not change the outcome
	if (kind == "kill_daemon" || kind == "stop_daemon" || kind == "cut_zk") && target == ha[0] && len(targets) == len(ha) && r.chance(0.7) {
		sp.Hosts = append(sp.Hosts, HostSpec{Name: "c1", Role: "cascade", StreamFrom: ha[r.intn(len(ha))]})
	}
	// a converged cluster still applies with a small delay: what a replica acknowledged is not
	// necessarily executed yet
	for i := range sp.Hosts {
		if sp.Hosts[i].Role == "ha" && i > 0 && sp.Hosts[i].Init == nil && r.chance(0.5) {
			// (well below the write interval: the replica keeps up, it is only never quite there)
			d := int64(r.pickInt(200, 400, 700))
			sp.Hosts[i].Init = &InitState{ApplyDelayMs: d}
			if w := 2*d + int64(r.pickInt(100, 300)); sp.World.ClientWriteMs < w {
				sp.World.ClientWriteMs = w
			}
		}
	}
	at := int64(15000) + int64(r.intn(int(c.TickMs+c.HealthMs)))
	durs := []int64{500, 1500, c.SessionTimeoutMs / 2, c.SessionTimeoutMs + 1000, c.FailoverDelayMs + c.SessionTimeoutMs + 3000, 30000, 60000}
	d := durs[r.intn(len(durs))]
	ev := TLEvent{AtMs: at, Host: target, DurMs: d, Fault: true}
	switch kind {
	case "kill_mysql", "kill_host", "kill_daemon", "stop_daemon":
		ev.Kind = kind
	case "isolate_blackhole":
		ev.Kind, ev.Arg = "isolate", "blackhole"
	case "isolate_reject":
		ev.Kind, ev.Arg = "isolate", "reject"
	case "cut_zk":
		ev.Kind, ev.Host2, ev.Arg = "cut", "zk", r.pick("blackhole", "reject")
	case "zk_down":
		ev.Kind, ev.Host = "zk_down", ""
	case "switch_to":
		ev.Kind = "cli_switch_to"
		ev.Host = ha[r.intn(len(ha))]
		ev.Arg = ha[1+r.intn(len(ha)-1)]
		ev.DurMs = 0
		d = 0
	case "switch_from":
		ev.Kind = "cli_switch_from"
		ev.Host = ha[r.intn(len(ha))]
		ev.Arg = ha[0]
		ev.DurMs = 0
		d = 0
	}
	sp.Variant = fmt.Sprintf("%s target=%s at=%d dur=%d nHA=%d failover=%v w=%d", kind, ev.Host, at, d, len(ha), c.Failover, c.WaitSlaveCount)
	sp.Timeline = []TLEvent{ev}
	sp.HealAtMs = at + d
	sp.LivenessMs = sp.boundMs()
	sp.DurationMs = sp.HealAtMs + sp.LivenessMs
	sp.Primary = []string{"C02"}
	return sp
}
