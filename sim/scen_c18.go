package verifsim

import "fmt"

// family disk (C18)
func genDisk(r *rng, index int) *Spec {
	sp := baseSpec(r, shapeOpt{minHA: 1 + index%4, maxHA: 1 + index%4, cascade: 0.1, semiSync: pb(index%5 != 4)})
	c := &sp.Cfg
	c.Failover = false
	c.WaitSlaveCount = r.pickInt(1, 2)
	c.KeepSuperWritable = index%3 == 2
	c.CriticalDisk = 95
	c.NotCriticalDisk = float64(r.pickInt(90, 90, 95))
	c.TickMs, c.HealthMs = int64(r.pickInt(1000, 2000)), int64(r.pickInt(1000, 2000))
	c.InactivationDelayMs = int64(r.pickInt(3000, 8000))
	ha := sp.haNames()
	master := ha[0]
	levels := []int64{10, 89, 90, 92, 94, 95, 96, 100, 91, 10}
	// master initially writable / ro / super-ro
	switch r.intn(4) {
	case 0:
		sp.hostSpecByName(master).Init = &InitState{ReadOnly: pb(true)}
	}
	t := int64(8000)
	var script []string
	steps := r.rangeInt(3, 7)
	for i := 0; i < steps; i++ {
		t += int64(r.pickInt(4000, 8000, 15000))
		h := ha[r.intn(len(ha))]
		if r.chance(0.5) {
			h = master
		}
		lv := levels[r.intn(len(levels))]
		sp.Timeline = append(sp.Timeline, TLEvent{AtMs: t, Kind: "disk", Host: h, N: lv})
		script = append(script, fmt.Sprintf("%s=%d@%d", h, lv, t/1000))
	}
	// a replica whose usage cannot be measured for a while (no report), while the others move
	if len(ha) > 1 && r.chance(0.3) {
		v := ha[1+r.intn(len(ha)-1)]
		at := 6000 + int64(r.intn(8000))
		sp.Timeline = append(sp.Timeline, TLEvent{AtMs: at, Kind: "disk", Host: v, N: -1})
		script = append(script, fmt.Sprintf("%s=unmeasurable@%d", v, at/1000))
		if r.chance(0.4) {
			back := at + int64(r.pickInt(15000, 30000))
			sp.Timeline = append(sp.Timeline, TLEvent{AtMs: back, Kind: "disk", Host: v, N: levels[r.intn(len(levels))]})
		}
	}
	// missing / delayed disk reports, dying replicas
	if len(ha) > 1 && r.chance(0.35) {
		v := ha[1+r.intn(len(ha)-1)]
		sp.Timeline = append(sp.Timeline, TLEvent{AtMs: 9000 + int64(r.intn(20000)), Kind: r.pick("kill_daemon", "kill_mysql", "kill_host"), Host: v, Fault: true, DurMs: int64(r.pickInt(0, 10000, 25000))})
	}
	if len(ha) > 2 && r.chance(0.2) {
		for _, v := range ha[1:] {
			if r.chance(0.7) {
				sp.Timeline = append(sp.Timeline, TLEvent{AtMs: 12000 + int64(r.intn(3000)), Kind: "kill_mysql", Host: v, Fault: true, DurMs: int64(r.pickInt(10000, 25000))})
			}
		}
	}
	sp.World.AutoResetupMs = 0
	sp.Variant = fmt.Sprintf("nHA=%d semi=%v w=%d keep_super=%v ncrit=%.0f script=%v", len(ha), c.SemiSync, c.WaitSlaveCount, c.KeepSuperWritable, c.NotCriticalDisk, script)
	sp.DurationMs = t + 40000
	sp.Primary = []string{"C18"}
	return sp
}
