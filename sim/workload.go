package verifsim

import (
	"fmt"
	"time"
)

func (s *Sim) startWorkload() {
	w := &s.spec.World
	if w.ClientWriteMs <= 0 || w.Clients <= 0 {
		return
	}
	for c := 0; c < w.Clients; c++ {
		cid := fmt.Sprintf("client:c%d", c+1)
		var tick func()
		n := 0
		tick = func() {
			n++
			s.clientRound(cid)
			d := ms(w.ClientWriteMs)
			d = d/2 + time.Duration(s.h("client", cid, fmt.Sprint(n))%uint64(d+1))
			s.after(d, "client", tick)
		}
		s.after(ms(w.ClientWriteMs)*time.Duration(c+1)/time.Duration(w.Clients+1)+500*time.Millisecond, "client", tick)
	}
}

// clientRound: the client tries to commit one (unique) transaction on every registered server
// it can reach. Replicas refuse (read_only); whoever is writable accepts.
func (s *Sim) clientRound(cid string) {
	size := s.spec.World.TxnSize
	if size == 0 {
		size = 1000
	}
	for _, sv := range s.mysql.sorted() {
		if !sv.Registered || !sv.Up {
			continue
		}
		if s.net.blocked("client", sv.Name) {
			continue
		}
		busy := false
		for _, wt := range sv.waiters {
			if wt.client == cid {
				busy = true
			}
		}
		if busy {
			continue
		}
		x := sv
		s.mysql.commit(sv, cid, size, func(o string, g GTID) { s.mon.onCommitResult(cid, x, g, o) })
	}
}
