package verifsim

import (
	"encoding/json"
	"fmt"
	"sort"
	"strings"
)

type kstate struct {
	seq    uint64
	exists bool
	val    string
	eph    bool
	sess   int64
}

// keyTimeline builds, from the fakezk log (ground truth), the history of every znode.
func keyTimelines(log []ZKEvent) map[string][]kstate {
	tl := map[string][]kstate{}
	for i := range log {
		e := &log[i]
		if e.Err != 0 {
			continue
		}
		switch e.Op {
		case "create":
			tl[e.Path] = append(tl[e.Path], kstate{e.Seq, true, e.Data, e.Eph, e.Sess})
		case "set":
			prev := last(tl[e.Path])
			st := kstate{e.Seq, true, e.Data, false, 0}
			if prev != nil && prev.exists {
				st.eph, st.sess = prev.eph, prev.sess
			}
			tl[e.Path] = append(tl[e.Path], st)
		case "delete":
			tl[e.Path] = append(tl[e.Path], kstate{seq: e.Seq})
		}
	}
	return tl
}

func last(x []kstate) *kstate {
	if len(x) == 0 {
		return nil
	}
	return &x[len(x)-1]
}

// statesIn returns the states key had at some instant of the window [a,b].
func statesIn(tl []kstate, a, b uint64) []kstate {
	var res []kstate
	cur := kstate{}
	for _, st := range tl {
		if st.seq <= a {
			cur = st
		}
	}
	res = append(res, cur)
	for _, st := range tl {
		if st.seq > a && st.seq <= b {
			res = append(res, st)
		}
	}
	return res
}

func jsonStr(v string) string {
	b, _ := json.Marshal(v)
	return string(b)
}

func childrenAt(log []ZKEvent, parent string, upto uint64) (bool, []string) {
	exists := false
	ch := map[string]bool{}
	pfx := parent + "/"
	for i := range log {
		e := &log[i]
		if e.Seq > upto {
			break
		}
		if e.Err != 0 {
			continue
		}
		if e.Path == parent {
			if e.Op == "create" || e.Op == "set" {
				exists = true
			} else if e.Op == "delete" {
				exists = false
				ch = map[string]bool{}
			}
			continue
		}
		if strings.HasPrefix(e.Path, pfx) && !strings.Contains(e.Path[len(pfx):], "/") {
			name := e.Path[len(pfx):]
			if e.Op == "create" || e.Op == "set" {
				ch[name] = true
			} else if e.Op == "delete" {
				delete(ch, name)
			}
		}
	}
	var r []string
	for k := range ch {
		r = append(r, k)
	}
	sort.Strings(r)
	return exists, r
}

func checkEngineB(s *Sim, hist []*dcsHist) {
	m := s.mon
	log := s.zk.log
	tl := keyTimelines(log)
	histMu.Lock()
	defer histMu.Unlock()
	// ---- paths reaching the server are normalised: redundant slashes never make a new key
	for i := range log {
		e := &log[i]
		if e.Path == "" || e.Inc == "external" {
			continue
		}
		if strings.Contains(e.Path, "//") || (len(e.Path) > 1 && strings.HasSuffix(e.Path, "/")) {
			m.violate("C15", "path_normalisation", "unnormalised-path-sent-to-server", fmt.Sprintf("%s sent %s %q", e.Inc, e.Op, e.Path))
		}
	}
	// ---- lock ownership timeline
	type own struct {
		from, to uint64
		sess     int64
	}
	var owns []own
	for i := range log {
		e := &log[i]
		if e.Path != "/test/manager" || e.Err != 0 {
			continue
		}
		switch e.Op {
		case "create":
			owns = append(owns, own{from: e.Seq, to: ^uint64(0), sess: e.Sess})
		case "delete":
			if n := len(owns); n > 0 && owns[n-1].to == ^uint64(0) {
				owns[n-1].to = e.Seq
				// (b) explicit delete must come from the owner
				if !strings.HasPrefix(e.Data, "<session_") {
					if m.sessInc[owns[n-1].sess] != e.Inc {
						m.violate("C03", "release_foreign_lock", "delete-of-lock-owned-by-another-process",
							fmt.Sprintf("%s deleted the lock znode owned by session %x of %s", e.Inc, owns[n-1].sess, m.sessInc[owns[n-1].sess]))
					}
					m.probe("c03_explicit_release_checked")
				}
			}
		}
	}
	done := 0
	for _, h := range hist {
		if !h.Done {
			continue
		}
		done++
		m.traj = mix64(m.traj ^ hashStr(h.Inc, h.Op, h.Key, h.Result, h.Got))
		if strings.Contains(h.Result, "invalid path") {
			m.violate("C15", "path_normalisation", "redundant-slash-spelling-rejected", fmt.Sprintf("%s %s(%q) -> %s", h.Inc, h.Op, h.Path, h.Result))
		}
		full := "/test/" + h.Key
		if h.Key == "" {
			full = "/test"
		}
		switch h.Op {
		case "acquire":
			m.probe("c03_acquire_" + h.Result)
			if h.Result != "true" {
				continue
			}
			ok := false
			for _, o := range owns {
				if o.from <= h.RetSeq && o.to > h.InvSeq && m.sessInc[o.sess] == h.Inc {
					ok = true
				}
			}
			if !ok {
				ownerNow := ""
				for _, o := range owns {
					if o.from <= h.RetSeq && o.to > h.InvSeq {
						ownerNow += fmt.Sprintf("%s(sess %x) ", m.sessInc[o.sess], o.sess)
					}
				}
				culprit := "told-holder-without-owning-lock-znode"
				if strings.Contains(ownerNow, strings.SplitN(h.Inc, "#", 2)[0]+"#") {
					culprit = "told-holder-while-znode-belongs-to-previous-incarnation"
				}
				m.violate("C03", "acquire_true_without_ownership", culprit,
					fmt.Sprintf("%s was told it holds the lock over events [%d,%d] (t=%v..%v) but no live session of it owned the znode then; owners in window: %s", h.Inc, h.InvSeq, h.RetSeq, h.InvT, h.RetT, ownerNow))
				// the same fact in C15's words: a lock is an ephemeral key, and the layer reported it as
				// existing for this process when no living session of the process had it
				if m.primary["C15"] && culprit == "told-holder-without-owning-lock-znode" {
					m.violate("C15", "ephemeral_lock", "lock-reported-held-without-a-live-ephemeral-key-of-the-caller",
						fmt.Sprintf("%s was told it holds the lock over events [%d,%d] but no live session of it owned the ephemeral key then; owners in window: %s", h.Inc, h.InvSeq, h.RetSeq, ownerNow))
				}
			}
		case "create", "create_eph":
			sts := statesIn(tl[full], h.InvSeq, h.RetSeq)
			wrote := wroteValue(log, h, full)
			switch h.Result {
			case "ok":
				if !wrote {
					m.violate("C15", "create_ok_no_effect", "create-reported-ok-without-creating", fmt.Sprintf("%s %s(%q) returned ok but the server never created it with that value", h.Inc, h.Op, h.Path))
				}
			case "exists":
				any := false
				for _, st := range sts {
					if st.exists {
						any = true
					}
				}
				if !any {
					m.violate("C15", "create_exists_wrong", "create-reported-exists-for-missing-key", fmt.Sprintf("%s %s(%q) returned 'exists' but the key was absent throughout [%d,%d]", h.Inc, h.Op, h.Path, h.InvSeq, h.RetSeq))
				}
				if wrote {
					// reply lost after the create took effect, the layer's retry then sees its own
					// node: 'exists' is truthful about existence (what the property states); not judged
					m.probe("c15_create_exists_after_own_retried_create")
				}
			}
			m.probe("c15_create_" + clip(h.Result))
		case "set", "set_eph":
			wrote := wroteValue(log, h, full)
			if h.Result == "ok" {
				if !wrote {
					m.violate("C15", "set_ok_no_effect", "set-reported-ok-without-writing", fmt.Sprintf("%s %s(%q,%q) returned ok but the value never reached the server", h.Inc, h.Op, h.Path, h.Value))
				}
				// parents exist afterwards by construction of zk; ephemeral-ness:
				if h.Op == "set_eph" {
					eph := false
					for _, st := range statesIn(tl[full], h.InvSeq, h.RetSeq) {
						if st.exists && st.val == jsonStr(h.Value) && st.eph {
							eph = true
						}
					}
					// an overwrite of a key that was a plain node when the write arrived leaves it plain
					// ("set overwrites"; neither kind of key is turned into the other): only a key that
					// this call itself created must be ephemeral
					if !eph {
						created := false
						for i := range log {
							e := &log[i]
							if e.Seq > h.InvSeq && e.Seq <= h.RetSeq && e.Err == 0 && e.Inc == h.Inc && e.Path == full && e.Op == "create" {
								created = true
							}
						}
						if !created {
							m.probe("c15_set_ephemeral_over_existing_plain_key")
							eph = true
						}
					}
					if !eph {
						m.violate("C15", "set_eph_left_plain", "set-ephemeral-ok-on-plain-key", fmt.Sprintf("%s SetEphemeral(%q) returned ok but the key is not ephemeral", h.Inc, h.Path))
					}
				}
			} else if strings.HasPrefix(h.Result, "error:") && strings.Contains(h.Result, "not ephemeral") && wrote {
				m.violate("C15", "set_eph_error_but_wrote", "set-ephemeral-refused-but-wrote", fmt.Sprintf("%s SetEphemeral(%q)", h.Inc, h.Path))
			}
			m.probe("c15_set_" + clip(h.Result))
		case "get":
			sts := statesIn(tl[full], h.InvSeq, h.RetSeq)
			ok := false
			switch h.Result {
			case "ok":
				for _, st := range sts {
					if st.exists && st.val == jsonStr(h.Got) {
						ok = true
					}
				}
			case "notfound":
				for _, st := range sts {
					if !st.exists {
						ok = true
					}
				}
			case "malformed":
				for _, st := range sts {
					var x string
					if st.exists && json.Unmarshal([]byte(st.val), &x) != nil {
						ok = true
					}
				}
			default:
				ok = true
			}
			if !ok {
				m.violate("C15", "get_wrong", "get-result-matches-no-state-in-window:"+h.Result, fmt.Sprintf("%s Get(%q) -> %s %q; states in window: %+v", h.Inc, h.Path, h.Result, h.Got, sts))
			}
			m.probe("c15_get_" + clip(h.Result))
		case "delete":
			if h.Result == "notfound" {
				m.violate("C15", "delete_not_idempotent", "delete-of-missing-key-reported-not-found", fmt.Sprintf("%s Delete(%q) returned not-found", h.Inc, h.Path))
			}
			if h.Result == "ok" {
				ok := false
				for _, st := range statesIn(tl[full], h.InvSeq, h.RetSeq) {
					if !st.exists {
						ok = true
					}
				}
				if !ok {
					m.violate("C15", "delete_ok_still_there", "delete-reported-ok-but-key-never-absent", fmt.Sprintf("%s Delete(%q)", h.Inc, h.Path))
				}
			}
			m.probe("c15_delete_" + clip(h.Result))
		case "children":
			ok := false
			seqs := []uint64{h.InvSeq}
			for i := range log {
				if log[i].Seq > h.InvSeq && log[i].Seq <= h.RetSeq {
					seqs = append(seqs, log[i].Seq)
				}
			}
			for _, q := range seqs {
				ex, ch := childrenAt(log, full, q)
				switch h.Result {
				case "notfound":
					if !ex {
						ok = true
					}
				case "ok":
					if ex && strings.Join(ch, ",") == h.Got {
						ok = true
					}
				default:
					ok = true
				}
			}
			if !ok {
				m.violate("C15", "children_wrong", "children-result-matches-no-state-in-window:"+h.Result, fmt.Sprintf("%s GetChildren(%q) -> %s [%s]", h.Inc, h.Path, h.Result, h.Got))
			}
			m.probe("c15_children_" + clip(h.Result))
		}
	}
	m.opsDone = done
	// ---- ephemerals die with their session (also a stub self-check) and never outlive it
	for p, n := range s.zk.tree {
		if n.owner != 0 && s.zk.sessions[n.owner] == nil {
			m.violate("C15", "ephemeral_outlived_session", "ephemeral-outlived-session", fmt.Sprintf("%s owned by dead session %x", p, n.owner))
		}
	}
}

func clip(s string) string {
	if i := strings.Index(s, ":"); i > 0 {
		return s[:i]
	}
	return s
}

func wroteValue(log []ZKEvent, h *dcsHist, full string) bool {
	want := jsonStr(h.Value)
	for i := range log {
		e := &log[i]
		if e.Seq > h.InvSeq && e.Seq <= h.RetSeq && e.Err == 0 && e.Inc == h.Inc && e.Path == full && (e.Op == "create" || e.Op == "set") && e.Data == want {
			return true
		}
	}
	return false
}
