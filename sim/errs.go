package verifsim

import (
	"errors"

	realmysql "github.com/go-sql-driver/mysql"
)

func myErr(n uint16, msg string) error {
	return &realmysql.MySQLError{Number: n, Message: msg}
}

func isRealMySQLError(err error) bool {
	var me *realmysql.MySQLError
	return errors.As(err, &me)
}

var errInvalidConn = realmysql.ErrInvalidConn
