package verifsim

import (
	"encoding/json"
	"fmt"
	"strings"
	"time"
)

// C19 - replication optimisation never leaves untracked relaxed durability.
//
// "relaxed" is judged against the durability level of the cluster = the settings the initial
// master had at t0 (no scenario event changes a master's settings): a server is relaxed when
// its (innodb_flush_log_at_trx_commit, sync_binlog) differ from that level and from the safe
// (1,1). It is "mysync's" when a mysync process wrote it or the host is/was registered.
type orC19 struct {
	baseOracle
	baseline   [2]int
	haveBase   bool
	wroteBy    map[string]bool          // a mysync process wrote relaxed settings to the host (not restored since)
	restoredBy map[string]string        // host -> process whose restore was the last (nobody relaxed it since: see relaxedBy)
	relaxedBy  map[string]string        // host -> process that relaxed it after the last restore
	relaxedAt  map[string]time.Duration // host -> when it was relaxed (since the last restore)
	everReg    map[string]bool
	regAtEnter map[string]map[string]string // per incarnation: registry (host -> status) when its pass began
	frozenIt   map[*iterRec]bool
	lagStable  map[string]time.Duration // since when the host's lag answer has been what it is now
	lagLast    map[string]string
}

func (o *orC19) name() string { return "C19" }

func settingsOf(sv *Server) [2]int { return [2]int{sv.FlushLog, sv.SyncBinlog} }

// durability ranks: higher = less durable
func flushRank(v int) int {
	switch v {
	case 1:
		return 0
	case 2:
		return 1
	}
	return 2
}

func syncRank(v int) int {
	if v == 0 {
		return 1 << 30
	}
	return v
}

// relaxed: less durable than the cluster's level in at least one of the two settings
func (o *orC19) relaxed(sv *Server) bool {
	return flushRank(sv.FlushLog) > flushRank(o.baseline[0]) || syncRank(sv.SyncBinlog) > syncRank(o.baseline[1])
}

func (o *orC19) carries(sv *Server) bool {
	return o.relaxed(sv) && (o.wroteBy[sv.Name] || o.everReg[sv.Name])
}

func (o *orC19) registry() map[string]string {
	r := map[string]string{}
	for _, h := range o.m.s.zk.children("/test/optimization_nodes") {
		raw, _ := o.m.s.zk.get("/test/optimization_nodes/" + h)
		st := "new"
		if strings.Contains(raw, `"enabled"`) {
			st = "enabled"
		}
		r[h] = st
	}
	return r
}

func (o *orC19) init() {
	if o.haveBase {
		return
	}
	m := o.m
	if msv := m.s.mysql.servers[m.master]; msv != nil {
		o.baseline = settingsOf(msv)
		o.haveBase = true
		o.wroteBy = map[string]bool{}
		o.everReg = map[string]bool{}
		o.regAtEnter = map[string]map[string]string{}
		o.frozenIt = map[*iterRec]bool{}
		o.lagStable = map[string]time.Duration{}
		o.lagLast = map[string]string{}
	}
}

func (o *orC19) afterEvent() {
	m := o.m
	if !m.primary["C19"] {
		return
	}
	o.init()
	if !o.haveBase {
		return
	}
	for h := range o.registry() {
		o.everReg[h] = true
	}
	now := m.s.now()
	for _, sv := range m.s.mysql.sorted() {
		k := "null"
		if sv.LagNull {
			k = "null"
		} else if sv.LagOverride != nil {
			k = fmt.Sprint(*sv.LagOverride)
		} else if l, ok := sv.lagSeconds(now).(float64); ok {
			k = "c"
			if l >= float64(m.s.spec.Cfg.OptLowMs)/1000 {
				k = fmt.Sprint("c", l)
			}
		}
		if o.lagLast[sv.Name] != k {
			o.lagLast[sv.Name] = k
			o.lagStable[sv.Name] = now
		}
	}
}

func (o *orC19) isMysync(src string) bool {
	d := o.m.s.daemons[src]
	return d != nil && (d.kind == "daemon" || d.kind == "cli")
}

func (o *orC19) onSQL(e *SQLEvent) {
	m := o.m
	s := m.s
	if !m.primary["C19"] || !e.Applied || !o.isMysync(e.Src) {
		return
	}
	o.init()
	if !o.haveBase {
		return
	}
	sv := s.mysql.servers[e.Dst]
	if sv == nil {
		return
	}
	switch {
	case strings.HasPrefix(e.Query, "SET GLOBAL sync_binlog"), strings.HasPrefix(e.Query, "SET GLOBAL innodb_flush_log_at_trx_commit"):
		if o.relaxed(sv) {
			// the written value itself is below the cluster's level
			wroteRelaxed := false
			if strings.HasPrefix(e.Query, "SET GLOBAL sync_binlog") {
				wroteRelaxed = syncRank(sv.SyncBinlog) > syncRank(o.baseline[1])
			} else {
				wroteRelaxed = flushRank(sv.FlushLog) > flushRank(o.baseline[0])
			}
			if e.Effective && wroteRelaxed {
				o.wroteBy[sv.Name] = true
				if o.relaxedBy == nil {
					o.relaxedBy = map[string]string{}
				}
				o.relaxedBy[sv.Name] = e.Src
				if o.relaxedAt == nil {
					o.relaxedAt = map[string]time.Duration{}
				}
				if _, was := o.relaxedAt[sv.Name]; !was {
					o.relaxedAt[sv.Name] = e.T
				}
				m.probe("c19_relaxed_settings_written")
			}
		} else {
			if o.wroteBy[sv.Name] {
				m.probe("c19_settings_restored")
			}
			o.wroteBy[sv.Name] = false
			delete(o.relaxedAt, sv.Name)
			if e.toldOK() {
				if o.restoredBy == nil {
					o.restoredBy = map[string]string{}
				}
				o.restoredBy[sv.Name] = e.Src
				delete(o.relaxedBy, sv.Name)
			}
		}
	case e.Query == "SET GLOBAL read_only = 0" && e.Effective && e.Dst != m.master && m.isDaemon(e.Src):
		// promotion
		m.probe("c19_promotion_checked")
		if _, reg := o.registry()[e.Dst]; reg {
			m.violate("C19", "promoted_registered", "node-promoted-while-registered-as-optimising", fmt.Sprintf("%s promoted %s while optimization_nodes/%s exists", e.Src, e.Dst, e.Dst))
		}
		if o.carries(sv) {
			m.violate("C19", "promoted_relaxed", "node-promoted-with-relaxed-settings", fmt.Sprintf("%s promoted %s while it runs with innodb_flush_log_at_trx_commit=%d sync_binlog=%d (cluster level %v)", e.Src, e.Dst, sv.FlushLog, sv.SyncBinlog, o.baseline))
		} else if settingsOf(sv) != o.baseline {
			// the new master's own (operator-given) settings are the cluster's level from now on
			m.probe("c19_cluster_level_changed_by_promotion")
			o.baseline = settingsOf(sv)
			for h := range o.wroteBy {
				o.wroteBy[h] = false
			}
		}
	case (strings.HasPrefix(e.Query, "STOP SLAVE IO_THREAD") || strings.HasPrefix(e.Query, "STOP REPLICA IO_THREAD")) && m.isDaemon(e.Src):
		it := e.It
		if it == nil || o.frozenIt[it] {
			return
		}
		if _, ok := lastReadIn(it, "switch", e.Seq); !ok {
			return
		}
		if r, _ := lastReadIn(it, "switch", e.Seq); r.err != 0 {
			return
		}
		o.frozenIt[it] = true
		m.probe("c19_freeze_checked")
		reg := o.registry()
		for _, h := range m.active {
			if h == m.master {
				continue
			}
			hs := s.mysql.servers[h]
			if hs == nil {
				continue
			}
			if _, r := reg[h]; r {
				m.violate("C19", "frozen_registered", "candidate-frozen-while-registered-as-optimising", fmt.Sprintf("%s froze replication for a switchover while candidate %s is still in the optimisation registry", e.Src, h))
			}
			if hs.Up && o.carries(hs) {
				m.violate("C19", "frozen_relaxed", "candidate-frozen-with-relaxed-settings", fmt.Sprintf("%s froze replication for a switchover while candidate %s runs with innodb_flush_log_at_trx_commit=%d sync_binlog=%d (cluster level %v)", e.Src, h, hs.FlushLog, hs.SyncBinlog, o.baseline))
			}
		}
	}
}

func (o *orC19) onZK(e *ZKEvent) {
	m := o.m
	s := m.s
	if !m.primary["C19"] || e.Err != 0 || !strings.HasPrefix(e.Path, "/test/optimization_nodes/") {
		return
	}
	o.init()
	h := strings.TrimPrefix(e.Path, "/test/optimization_nodes/")
	switch e.Op {
	case "create", "set":
		o.everReg[h] = true
		m.probe("c19_host_registered")
	case "delete":
		if !o.isMysync(e.Inc) {
			return
		}
		m.probe("c19_host_deregistered")
		sv := s.mysql.servers[h]
		if sv == nil || !(m.isHA(h) || m.isCascade(h)) {
			m.probe("c19_non_cluster_host_deregistered")
			return
		}
		if !o.relaxed(sv) {
			// dropped at the cluster's level of that time: from here on its settings are its own
			// again (a later master with stricter settings does not make them "mysync's relaxed" ones)
			delete(o.everReg, h)
			delete(o.wroteBy, h)
		}
		if o.relaxed(sv) {
			sig := "host-dropped-from-registry-before-settings-restored"
			if o.restoredBy[h] == e.Inc && o.relaxedBy[h] != "" && o.relaxedBy[h] != e.Inc {
				// the process that drops the host did restore it first; another process (the manager's
				// sync, for which the host was still registered) relaxed it again before the delete landed
				sig = "restored-by-the-dropping-process-then-relaxed-again-by-another:before-the-delete-landed"
			}
			m.violate("C19", "dropped_unrestored", sig, fmt.Sprintf("%s deleted optimization_nodes/%s while %s runs with innodb_flush_log_at_trx_commit=%d sync_binlog=%d (cluster level %v)", e.Inc, h, h, sv.FlushLog, sv.SyncBinlog, o.baseline))
		}
	}
}

func (o *orC19) onIterEnter(it *iterRec) {
	if !o.m.primary["C19"] || it.state != "Manager" {
		return
	}
	o.init()
	if o.haveBase {
		o.regAtEnter[it.inc] = o.registry()
	}
}

func (o *orC19) onIterLeave(it *iterRec) {
	m := o.m
	s := m.s
	if !m.primary["C19"] || it.state != "Manager" || !o.haveBase {
		return
	}
	synced := false
	for _, r := range it.reads {
		if (r.path == "switch" || r.path == "maintenance") && r.op == "get" && r.err == 0 {
			return
		}
		if r.path == "optimization_nodes" && r.op == "children" && r.err == 0 {
			synced = true
		}
	}
	if !synced || it.faults > 0 || it.next != "Manager" {
		return
	}
	for _, e := range it.sql {
		if e.Src == it.inc && !e.toldOK() {
			return
		}
	}
	for _, w := range it.zkWrites {
		if w.Err != 0 && strings.HasPrefix(w.Path, "/test/optimization_nodes") {
			return
		}
	}
	cfg := &s.spec.Cfg
	m.probe("c19_sync_pass_checked")
	reg := o.registry()
	master := m.master
	// (1) at most one replica left relaxed under mysync's control; none relaxed and untracked
	var relaxedReg []string
	for _, sv := range s.mysql.sorted() {
		h := sv.Name
		if h == master || !sv.Up || !(m.isHA(h) || m.isCascade(h)) || sv.lastWorldChange >= it.startT {
			continue
		}
		if _, r := reg[h]; r && o.relaxed(sv) {
			relaxedReg = append(relaxedReg, h)
		}
		if _, r := reg[h]; !r && o.carries(sv) && o.wroteBy[h] {
			m.violate("C19", "untracked_relaxed", "replica-left-relaxed-outside-registry", fmt.Sprintf("after the sync of %s replica %s runs with innodb_flush_log_at_trx_commit=%d sync_binlog=%d (cluster level %v) but is not in the optimisation registry", it.inc, h, sv.FlushLog, sv.SyncBinlog, o.baseline))
		}
	}
	// the registry cannot be read while one of its entries is garbage (left by an external tool):
	// every sync then fails before it decides anything, so what it found is not of its making
	unreadable := false
	for _, h := range s.zk.children("/test/optimization_nodes") {
		raw, _ := s.zk.get("/test/optimization_nodes/" + h)
		var js map[string]any
		if json.Unmarshal([]byte(raw), &js) != nil {
			unreadable = true
		}
	}
	byMysync := false
	for _, h := range relaxedReg {
		if o.wroteBy[h] {
			byMysync = true
		}
	}
	if len(relaxedReg) > 1 && (!unreadable || byMysync) {
		sig := "more-than-one-replica-left-relaxed-after-sync"
		// the sync judges the replicas by the health records their own daemons publish: when the
		// record it read of an already relaxed replica was written before that replica was relaxed,
		// it took it for untouched and started another one
		stale := 0
		for _, h := range relaxedReg {
			at, ok := o.relaxedAt[h]
			if !ok {
				continue
			}
			for _, r := range it.reads {
				if r.path == "health/"+h && r.op == "get" && r.err == 0 {
					var hr struct {
						CheckAt time.Time `json:"check_at"`
					}
					if json.Unmarshal([]byte(r.data), &hr) == nil && !hr.CheckAt.IsZero() && hr.CheckAt.Sub(s.t0) < at {
						stale++
						break
					}
				}
			}
		}
		if stale > 0 && stale >= len(relaxedReg)-1 {
			sig = "second-replica-relaxed-on-a-health-record-older-than-the-first-one's-relaxation"
		}
		m.violate("C19", "more_than_one", sig, fmt.Sprintf("after the sync of %s replicas %v all run with relaxed durability settings", it.inc, relaxedReg))
	}
	if msv := s.mysql.servers[master]; msv != nil && msv.Up && o.wroteBy[master] && o.relaxed(msv) {
		if _, r := reg[master]; !r {
			m.violate("C19", "untracked_relaxed", "master-left-relaxed-outside-registry", fmt.Sprintf("after the sync of %s master %s runs with innodb_flush_log_at_trx_commit=%d sync_binlog=%d written by mysync (cluster level %v) and is not in the optimisation registry", it.inc, master, msv.FlushLog, msv.SyncBinlog, o.baseline))
		}
	}
	// (2) hosts without a known lag / with converged lag are restored and dropped
	settle := 2*ms(cfg.HealthMs) + ms(cfg.TickMs) + time.Second
	if unreadable {
		return
	}
	for _, sv := range s.mysql.sorted() {
		h := sv.Name
		if h == master || !(m.isHA(h) || m.isCascade(h)) || !sv.Up || sv.lastWorldChange >= it.startT-settle {
			continue
		}
		if s.liveByHost[h] == nil || s.liveByHost[h].startedAt > it.startT-settle {
			continue
		}
		if since, ok := o.lagStable[h]; !ok || since > it.startT-settle {
			continue
		}
		k := o.lagLast[h]
		must := ""
		switch {
		case k == "null":
			must = "its lag is unknown"
		case k == "c":
			must = "its lag is below the low mark"
		case strings.HasPrefix(k, "c"):
		default:
			var v float64
			fmt.Sscan(k, &v)
			if v < float64(cfg.OptLowMs)/1000 {
				must = fmt.Sprintf("its lag %.0fs is below the low mark", v)
			}
		}
		if must == "" {
			continue
		}
		m.probe("c19_converged_or_lost_host_checked")
		_, atEnter := o.regAtEnter[it.inc][h]
		if _, still := reg[h]; still && atEnter {
			m.violate("C19", "kept_registered", "converged-or-lost-host-kept-in-registry", fmt.Sprintf("%s was registered when the sync of %s began and %s, yet it is still registered afterwards", h, it.inc, must))
		}
	}
}
