package verifsim

import (
	"encoding/json"
	"fmt"
	"math"
	"strings"
	"time"
)

// C17 - offline-mode policy: thresholds, hysteresis and per-zone cap.
type orC17 struct {
	baseOracle
	lastBrokenOff time.Duration
	hadBrokenOff  bool
	lagHist       map[string][]lagSample
	brokenHist    map[string][]lagSample // replication permanently broken (lag=1) or not (lag=0)
	roHist        []lagSample            // master writable (lag=0) / read-only (lag=1)
	offSnap       map[*SQLEvent]map[string]bool
	masterOffRuns int
}

type lagSample struct {
	t   time.Duration
	lag float64
	ok  bool
}

func (o *orC17) name() string { return "C17" }

func zoneOf(host, sep string) string {
	if sep == "" {
		return ""
	}
	if i := strings.Index(host, sep); i >= 0 {
		return host[:i]
	}
	return ""
}

func (o *orC17) afterEvent() {
	m := o.m
	if !m.primary["C17"] {
		return
	}
	if o.lagHist == nil {
		o.lagHist = map[string][]lagSample{}
	}
	now := m.s.now()
	for _, sv := range m.s.mysql.sorted() {
		if !sv.Registered || !sv.HasChannel {
			continue
		}
		var s lagSample
		s.t = now
		if sv.LagOverride != nil {
			s.lag, s.ok = *sv.LagOverride, true
		} else if l, isF := sv.lagSeconds(now).(float64); isF {
			s.lag, s.ok = l, true
		}
		bv := 0.0
		if permanentErrnos[sv.LastSQLErrno] || permanentErrnos[sv.LastIOErrno] {
			bv = 1
		}
		if o.brokenHist == nil {
			o.brokenHist = map[string][]lagSample{}
		}
		if bh := o.brokenHist[sv.Name]; len(bh) == 0 || bh[len(bh)-1].lag != bv {
			o.brokenHist[sv.Name] = append(bh, lagSample{t: now, lag: bv, ok: true})
		}
		h := o.lagHist[sv.Name]
		if n := len(h); n > 0 && h[n-1].lag == s.lag && h[n-1].ok == s.ok {
			continue
		}
		o.lagHist[sv.Name] = append(h, s)
	}
	if msv := m.s.mysql.servers[m.master]; msv != nil {
		v := 0.0
		if msv.ReadOnly {
			v = 1
		}
		if n := len(o.roHist); n == 0 || o.roHist[n-1].lag != v {
			o.roHist = append(o.roHist, lagSample{t: now, lag: v, ok: true})
		}
	}
}

func samplesIn(h []lagSample, a, b time.Duration) []lagSample {
	var res []lagSample
	var cur *lagSample
	for i := range h {
		if h[i].t <= a {
			cur = &h[i]
		}
	}
	if cur != nil {
		res = append(res, *cur)
	}
	for i := range h {
		if h[i].t > a && h[i].t <= b {
			res = append(res, h[i])
		}
	}
	return res
}

func (o *orC17) onSQL(e *SQLEvent) {
	if !o.m.primary["C17"] || e.Query != "SET GLOBAL offline_mode = ON" {
		return
	}
	if o.offSnap == nil {
		o.offSnap = map[*SQLEvent]map[string]bool{}
	}
	snap := map[string]bool{}
	for _, x := range o.m.s.mysql.sorted() {
		if x.Name != e.Dst && x.Up && x.Offline {
			snap[x.Name] = true
		}
	}
	o.offSnap[e] = snap
}

func (o *orC17) onIterLeave(it *iterRec) {
	m := o.m
	s := m.s
	if !m.primary["C17"] || it.state != "Manager" {
		return
	}
	cfg := &s.spec.Cfg
	enable := float64(cfg.OfflineEnableLagMs) / 1000
	disable := float64(cfg.OfflineDisableLagMs) / 1000
	master := m.master
	msv := s.mysql.servers[master]
	for _, r := range it.reads {
		if (r.path == "switch" || r.path == "maintenance") && r.op == "get" && r.err == 0 {
			o.masterOffRuns = 0
			return
		}
	}
	// master is kept online unless marked for recovery (the repair pass runs only while the
	// master's own daemon publishes a health record)
	healthSeen := false
	for _, r := range it.reads {
		if r.path == "health/"+master && r.op == "get" && r.err == 0 {
			healthSeen = true
		}
	}
	if msv != nil && msv.Up && msv.Offline && it.faults == 0 && msv.StartedAt < it.startT && it.next == "Manager" && healthSeen {
		if _, rec := s.zk.get("/test/recovery/" + master); !rec {
			o.masterOffRuns++
			if o.masterOffRuns >= 4 {
				m.violate("C17", "master_left_offline", "master-not-brought-online", fmt.Sprintf("%s: master %s stays offline over %d undisturbed manager passes without a recovery mark", it.inc, master, o.masterOffRuns))
			}
		} else {
			o.masterOffRuns = 0
		}
	} else {
		o.masterOffRuns = 0
	}
	for _, e := range it.sql {
		if e.Src != it.inc || !e.Applied {
			continue
		}
		if e.Query != "SET GLOBAL offline_mode = ON" && e.Query != "SET GLOBAL offline_mode = OFF" {
			continue
		}
		on := e.Query == "SET GLOBAL offline_mode = ON"
		R := e.Dst
		rsv := s.mysql.servers[R]
		if rsv == nil {
			continue
		}
		if R == master {
			if on {
				m.violate("C17", "master_offline", "master-taken-offline-by-repair-pass", fmt.Sprintf("%s set master %s offline", it.inc, R))
			} else if e.Effective {
				m.probe("c17_master_set_online")
				if _, rec := s.zk.get("/test/recovery/" + master); rec {
					m.violate("C17", "master_online_in_recovery", "master-marked-for-recovery-brought-online", fmt.Sprintf("%s set master %s online although it is marked for recovery", it.inc, R))
				}
			}
			continue
		}
		lags := samplesIn(o.lagHist[R], it.startT, e.T)
		// broken: during the whole window; brokenChanged: at some but not every instant of it
		broken, brokenChanged := true, false
		for _, x := range samplesIn(o.brokenHist[R], it.startT, e.T) {
			if x.lag == 0 {
				broken = false
			} else {
				brokenChanged = true
			}
		}
		if broken {
			brokenChanged = false
		}
		if on {
			m.probe("c17_replica_set_offline")
			if !e.Effective {
				continue
			}
			overEnable := false
			for _, l := range lags {
				if l.ok && l.lag > enable {
					overEnable = true
				}
			}
			masterWritable := false
			for _, x := range samplesIn(o.roHist, it.startT, e.T) {
				if x.lag == 0 {
					masterWritable = true
				}
			}
			lagOK, capDetail := false, ""
			if overEnable && masterWritable {
				// zone cap, counting this one, those taken offline earlier in this pass and those
				// already offline
				z := zoneOf(R, cfg.OfflineAZSep)
				total, off := 0, 0
				snap := o.offSnap[e]
				for _, x := range s.mysql.sorted() {
					if !x.Registered || x.Name == master || zoneOf(x.Name, cfg.OfflineAZSep) != z {
						continue
					}
					total++
					if x.Name != R && snap[x.Name] {
						off++
					}
				}
				switch {
				case cfg.OfflineMaxPct >= 100:
					lagOK = true
				case cfg.OfflineMaxPct <= 0 || total == 0:
					capDetail = fmt.Sprintf("offline_mode_max_offline_pct=%d", cfg.OfflineMaxPct)
				default:
					pct := int(math.Floor(100 * float64(off+1) / float64(total)))
					lagOK = pct <= cfg.OfflineMaxPct
					capDetail = fmt.Sprintf("zone %q would have %d of %d replicas offline (%d%% > cap %d%%)", z, off+1, total, pct, cfg.OfflineMaxPct)
				}
				if lagOK {
					m.probe("c17_lag_offline_within_cap")
				}
			}
			delete(o.offSnap, e)
			if lagOK {
				continue
			}
			if broken || brokenChanged {
				m.probe("c17_broken_replica_set_offline")
				if o.hadBrokenOff && e.T-o.lastBrokenOff < ms(cfg.OfflineEnableIntervalMs)-ms(cfg.TickMs) {
					m.violate("C17", "broken_rate", "broken-replicas-taken-offline-faster-than-interval", fmt.Sprintf("%s took broken replica %s offline %v after the previous one (interval %dms)", it.inc, R, e.T-o.lastBrokenOff, cfg.OfflineEnableIntervalMs))
				}
				o.lastBrokenOff, o.hadBrokenOff = e.T, true
				continue
			}
			switch {
			case overEnable && masterWritable:
				m.violate("C17", "zone_cap", "zone-offline-share-above-cap", fmt.Sprintf("%s took %s offline for lag: %s", it.inc, R, capDetail))
			case overEnable:
				m.violate("C17", "master_read_only", "replica-taken-offline-while-master-read-only", fmt.Sprintf("%s took %s offline for lag while the master %s was read-only during the whole pass", it.inc, R, master))
			default:
				m.violate("C17", "offline_without_cause", "replica-taken-offline-below-enable-threshold", fmt.Sprintf("%s took %s offline: lag values in window %v, enable threshold %.0fs, replication not permanently broken", it.inc, R, fmtLags(lags), enable))
			}
		} else {
			m.probe("c17_replica_set_online")
			if !e.Effective {
				continue
			}
			under := false
			for _, l := range lags {
				if l.ok && l.lag <= disable {
					under = true
				}
			}
			if !under {
				m.violate("C17", "online_above_threshold", "replica-brought-online-above-disable-threshold", fmt.Sprintf("%s brought %s online: lag values in window %v, disable threshold %.0fs", it.inc, R, fmtLags(lags), disable))
			}
			if broken && !brokenChanged {
				m.violate("C17", "online_broken", "permanently-broken-replica-brought-online", fmt.Sprintf("%s brought %s online with replication error io=%d sql=%d", it.inc, R, rsv.LastIOErrno, rsv.LastSQLErrno))
			}
			// resetup status must be negative and newer than the server's start
			var rd *zkRead
			for i := range it.reads {
				r := &it.reads[i]
				if r.path == "resetup_status/"+R && r.op == "get" && r.t <= e.T {
					rd = r
				}
			}
			if rd == nil || rd.err != 0 {
				m.violate("C17", "online_resetup_unknown", "replica-brought-online-without-resetup-status", fmt.Sprintf("%s brought %s online without a successful read of its resetup status", it.inc, R))
				continue
			}
			var rs struct {
				UpdateTime time.Time
				Status     bool
			}
			if json.Unmarshal([]byte(rd.data), &rs) != nil {
				continue
			}
			m.probe("c17_online_with_resetup_status_checked")
			if rs.Status {
				m.violate("C17", "online_resetup_pending", "replica-brought-online-with-positive-resetup-status", fmt.Sprintf("%s brought %s online while its resetup status is true", it.inc, R))
			} else if rsv.StartedAt < it.startT {
				start := time.Unix(s.t0.Add(rsv.StartedAt).Unix(), 0)
				if rs.UpdateTime.Before(start) {
					m.violate("C17", "online_resetup_stale", "replica-brought-online-with-stale-resetup-status", fmt.Sprintf("%s brought %s online: resetup status of %v is older than server start %v", it.inc, R, rs.UpdateTime.Sub(s.t0), rsv.StartedAt))
				}
			}
		}
	}
}

func fmtLags(l []lagSample) string {
	var p []string
	for _, x := range l {
		if x.ok {
			p = append(p, fmt.Sprintf("%.0f", x.lag))
		} else {
			p = append(p, "unknown")
		}
	}
	return "[" + strings.Join(p, " ") + "]"
}
