package verifsim

// fakezk: one logical ZooKeeper server speaking the wire protocol to the real go-zookeeper
// client over in-memory connections (simnet). Sessions expire only by timeout.

import (
	"encoding/binary"
	"errors"
	"fmt"
	"io"
	"net"
	"os"
	"sort"
	"strings"
	"sync"
	"sync/atomic"
	"time"
)

// ---------------------------------------------------------------- in-memory connection

type memConn struct {
	id    int
	owner string // incarnation id
	host  string

	mu       sync.Mutex
	toServer []byte
	toClient []byte
	rdSig    chan struct{}
	cliClose bool // closed by client
	srvClose bool // closed/reset by server or network
	rdl      time.Time

	// controller-owned
	sess         *zkSession
	shaken       bool
	dead         atomic.Bool // owner process died / link cut for good: nothing flows any more
	cliCloseSeen bool
	lastUp       time.Duration
	lastDown     time.Duration
	heldUp       [][]byte
	heldDown     [][]byte
	heldDownCb   []func() // delivery callbacks of heldDown (same index; nil = none)
	upCount      int
	curReq       []byte // request being handled (latency key of its reply)
	pend         [][]byte
	downCount    int
}

func (c *memConn) Read(p []byte) (int, error) {
	for {
		c.mu.Lock()
		if len(c.toClient) > 0 {
			n := copy(p, c.toClient)
			c.toClient = c.toClient[n:]
			c.mu.Unlock()
			return n, nil
		}
		if c.cliClose {
			c.mu.Unlock()
			return 0, net.ErrClosed
		}
		if c.srvClose {
			c.mu.Unlock()
			return 0, io.EOF
		}
		dl := c.rdl
		c.mu.Unlock()
		var tch <-chan time.Time
		var t *time.Timer
		if !dl.IsZero() {
			d := time.Until(dl)
			if d <= 0 {
				return 0, os.ErrDeadlineExceeded
			}
			t = time.NewTimer(d)
			tch = t.C
		}
		select {
		case <-c.rdSig:
			if t != nil {
				t.Stop()
			}
		case <-tch:
			return 0, os.ErrDeadlineExceeded
		}
	}
}

func (c *memConn) Write(p []byte) (int, error) {
	c.mu.Lock()
	if c.cliClose {
		c.mu.Unlock()
		return 0, net.ErrClosed
	}
	if c.srvClose {
		c.mu.Unlock()
		return 0, errors.New("write: broken pipe")
	}
	c.toServer = append(c.toServer, p...)
	c.mu.Unlock()
	theSim.ping()
	return len(p), nil
}

func (c *memConn) signal() {
	select {
	case c.rdSig <- struct{}{}:
	default:
	}
}

func (c *memConn) Close() error {
	c.mu.Lock()
	c.cliClose = true
	c.mu.Unlock()
	c.signal()
	theSim.ping()
	return nil
}

func (c *memConn) deliver(b []byte) {
	c.mu.Lock()
	c.toClient = append(c.toClient, b...)
	c.mu.Unlock()
	c.signal()
}

func (c *memConn) serverClose() {
	c.mu.Lock()
	c.srvClose = true
	c.mu.Unlock()
	c.signal()
}

func (c *memConn) LocalAddr() net.Addr           { return &net.TCPAddr{} }
func (c *memConn) RemoteAddr() net.Addr          { return &net.TCPAddr{} }
func (c *memConn) SetDeadline(t time.Time) error { return c.SetReadDeadline(t) }
func (c *memConn) SetReadDeadline(t time.Time) error {
	c.mu.Lock()
	c.rdl = t
	c.mu.Unlock()
	return nil
}
func (c *memConn) SetWriteDeadline(time.Time) error { return nil }

// ---------------------------------------------------------------- Net: reachability + zk transport

type Net struct {
	s      *Sim
	mu     sync.Mutex
	conns  []*memConn
	block  map[string]string // "a|b" (a<b) -> mode ("blackhole"|"reject")
	zkDown bool
}

func newNet(s *Sim) *Net { return &Net{s: s, block: map[string]string{}} }

func pairKey(a, b string) string {
	if a > b {
		a, b = b, a
	}
	return a + "|" + b
}

func (n *Net) blockedMode(a, b string) string {
	if a == b {
		return ""
	}
	return n.block[pairKey(a, b)]
}
func (n *Net) blocked(a, b string) bool { return n.blockedMode(a, b) != "" }

func (n *Net) setBlock(a, b, mode string) {
	if mode == "" {
		delete(n.block, pairKey(a, b))
	} else {
		n.block[pairKey(a, b)] = mode
	}
}

func (n *Net) newConn(owner, host string) *memConn {
	n.mu.Lock()
	defer n.mu.Unlock()
	c := &memConn{id: len(n.conns) + 1, owner: owner, host: host, rdSig: make(chan struct{}, 1)}
	n.conns = append(n.conns, c)
	return c
}

func (n *Net) snapshot() []*memConn {
	n.mu.Lock()
	defer n.mu.Unlock()
	return append([]*memConn(nil), n.conns...)
}

// collect moves complete client->server frames written so far into per-connection pending
// batches; flush sends them. Frames written at one simulated instant come from different
// goroutines of the client process (each waits for its reply before sending again), so their
// relative order on the wire is a scheduling accident: flush canonicalises it (by content after
// the xid) once no more activity appears at this instant.
func (n *Net) collect() bool {
	s := n.s
	got := false
	for _, c := range n.snapshot() {
		if c.dead.Load() {
			continue
		}
		for {
			c.mu.Lock()
			if len(c.toServer) < 4 {
				c.mu.Unlock()
				break
			}
			ln := int(binary.BigEndian.Uint32(c.toServer))
			if len(c.toServer) < 4+ln {
				c.mu.Unlock()
				break
			}
			frame := append([]byte(nil), c.toServer[4:4+ln]...)
			c.toServer = c.toServer[4+ln:]
			c.mu.Unlock()
			c.pend = append(c.pend, frame)
			got = true
		}
		c.mu.Lock()
		closed := c.cliClose
		c.mu.Unlock()
		if closed && !c.cliCloseSeen {
			c.cliCloseSeen = true
			got = true
			cc := c
			at := s.now() + 300*time.Microsecond
			if at <= cc.lastUp {
				at = cc.lastUp + time.Nanosecond
			}
			cc.lastUp = at
			s.at(at, "zk-connclose", func() { s.zk.connClosed(cc) })
		}
	}
	return got
}

func (n *Net) flush() bool {
	sent := false
	for _, c := range n.snapshot() {
		if len(c.pend) == 0 {
			continue
		}
		batch := c.pend
		c.pend = nil
		if len(batch) > 1 && c.shaken {
			sort.SliceStable(batch, func(i, j int) bool {
				a, b := batch[i], batch[j]
				if len(a) >= 4 && len(b) >= 4 {
					return zkContentKey(a[4:]) < zkContentKey(b[4:])
				}
				return len(a) < len(b)
			})
		}
		for _, frame := range batch {
			n.sendUp(c, frame)
			sent = true
		}
	}
	return sent
}

func (n *Net) sendUp(c *memConn, frame []byte) {
	s := n.s
	lat := s.zkLatency(c, frame, true)
	if s.verbose && os.Getenv("VERIF_DEBUG_STK") != "" && len(frame) >= 8 {
		r := &jr{b: frame}
		r.i32()
		op := r.i32()
		s.trace("ZKSEND conn=%d owner=%s n=%d %s lat=%v", c.id, c.owner, c.upCount, zkReqIdent(op, frame), lat)
	}
	at := s.now() + lat
	if at < c.lastUp {
		at = c.lastUp // FIFO per connection; equal instants keep their order by event sequence
	}
	c.lastUp = at
	s.at(at, "zk-req", func() {
		if c.dead.Load() || c.srvClose {
			return
		}
		if n.zkDown {
			return
		}
		if n.blocked(c.host, "zk") {
			c.heldUp = append(c.heldUp, frame)
			return
		}
		s.zk.handle(c, frame)
	})
}

// sendDown: the reply's latency is keyed by the *request* it answers (c.curReq), not by the
// reply bytes (which contain e.g. the data length of the lock node and with it the digit count
// of this run process' OS pid).
// sendDown: cb (optional) runs at the instant the frame is handed to the client.
func (n *Net) sendDown(c *memConn, frame []byte, cb ...func()) {
	s := n.s
	var onDeliver func()
	if len(cb) > 0 {
		onDeliver = cb[0]
	}
	c.downCount++
	lat := s.zkLatency(c, c.curReq, false)
	at := s.now() + lat
	if at < c.lastDown {
		at = c.lastDown
	}
	c.lastDown = at
	s.at(at, "zk-resp", func() {
		if c.dead.Load() {
			return
		}
		if n.blocked(c.host, "zk") {
			c.heldDown = append(c.heldDown, frame)
			c.heldDownCb = append(c.heldDownCb, onDeliver)
			return
		}
		c.deliver(frame)
		if onDeliver != nil {
			onDeliver()
		}
	})
}

// flushHeld is called when a partition heals: TCP would retransmit what was in flight.
func (n *Net) flushHeld() {
	for _, c := range n.snapshot() {
		if c.dead.Load() || n.blocked(c.host, "zk") {
			continue
		}
		up, down, downCb := c.heldUp, c.heldDown, c.heldDownCb
		c.heldUp, c.heldDown, c.heldDownCb = nil, nil, nil
		c.mu.Lock()
		closed := c.cliClose || c.srvClose
		c.mu.Unlock()
		if closed {
			continue
		}
		for _, f := range up {
			n.sendUp(c, f)
		}
		for i, f := range down {
			if i < len(downCb) && downCb[i] != nil {
				n.sendDown(c, f, downCb[i])
			} else {
				n.sendDown(c, f)
			}
		}
	}
}

func (n *Net) resetConnsOf(pred func(c *memConn) bool) {
	for _, c := range n.snapshot() {
		if pred(c) && !c.srvClose {
			c.serverClose()
			n.s.zk.connClosed(c)
		}
	}
}

// ---------------------------------------------------------------- ZooKeeper server

type znode struct {
	data     []byte
	version  int32
	cversion int32
	owner    int64
	children map[string]bool
	czxid    int64
	mzxid    int64
}

type zkSession struct {
	id        int64
	passwd    []byte
	timeout   time.Duration
	lastHeard time.Duration
	conn      *memConn
	owner     string
	closed    bool
}

type ZKEvent struct {
	Seq     uint64
	T       time.Duration
	Sess    int64
	Inc     string
	Op      string // create get set delete children session_new session_expired session_closed conn_lost reconnect
	Path    string
	Data    string
	Err     int32
	Version int32
	Eph     bool
}

type ZKServer struct {
	onReply  func(e *ZKEvent) // a successful read's reply reached the client
	s        *Sim
	tree     map[string]*znode
	sessions map[int64]*zkSession
	nextSess int64
	zxid     int64
	log      []ZKEvent
	ops      int
	onEvent  func(e *ZKEvent)
}

func newZK(s *Sim) *ZKServer {
	z := &ZKServer{s: s, tree: map[string]*znode{"/": {children: map[string]bool{}}}, sessions: map[int64]*zkSession{}, nextSess: 0x100}
	return z
}

func zparent(p string) (string, string) {
	i := strings.LastIndex(p, "/")
	if i <= 0 {
		return "/", p[i+1:]
	}
	return p[:i], p[i+1:]
}

func (z *ZKServer) record(e ZKEvent) {
	e.Seq = z.s.evSeq
	e.T = z.s.now()
	z.log = append(z.log, e)
	d := e.Data
	if len(d) > 200 {
		d = d[:200]
	}
	z.s.trace("ZK %s sess=%x inc=%s %s err=%d v=%d %s", e.Op, e.Sess, e.Inc, e.Path, e.Err, e.Version, d)
	if z.onEvent != nil {
		z.onEvent(&z.log[len(z.log)-1])
	}
}

// direct (harness / "external tool") access -------------------------------------------------

func (z *ZKServer) rawSet(path string, data string) {
	parts := strings.Split(strings.Trim(path, "/"), "/")
	cur := ""
	// an ephemeral node has no children (the server refuses the create): the tool's write fails
	chk := ""
	for _, p := range parts[:len(parts)-1] {
		chk += "/" + p
		if n := z.tree[chk]; n != nil && n.owner != 0 {
			return
		}
	}
	for i, p := range parts {
		par := cur
		if par == "" {
			par = "/"
		}
		cur = cur + "/" + p
		if z.tree[cur] == nil {
			z.zxid++
			z.tree[cur] = &znode{children: map[string]bool{}, czxid: z.zxid, mzxid: z.zxid}
			z.tree[par].children[p] = true
			z.tree[par].cversion++
			if i != len(parts)-1 {
				z.record(ZKEvent{Op: "create", Inc: "external", Path: cur})
			}
		}
		if i == len(parts)-1 {
			n := z.tree[cur]
			n.data = []byte(data)
			n.version++
			z.zxid++
			n.mzxid = z.zxid
		}
	}
	z.record(ZKEvent{Op: "set", Inc: "external", Path: path, Data: data})
}

func (z *ZKServer) rawDelete(path string) bool {
	n := z.tree[path]
	if n == nil {
		return false
	}
	for ch := range n.children {
		z.rawDelete(path + "/" + ch)
	}
	pp, name := zparent(path)
	delete(z.tree, path)
	if p := z.tree[pp]; p != nil {
		delete(p.children, name)
		p.cversion++
	}
	z.zxid++
	z.record(ZKEvent{Op: "delete", Inc: "external", Path: path})
	return true
}

func (z *ZKServer) get(path string) (string, bool) {
	n := z.tree[path]
	if n == nil {
		return "", false
	}
	return string(n.data), true
}

func (z *ZKServer) children(path string) []string {
	n := z.tree[path]
	if n == nil {
		return nil
	}
	ks := make([]string, 0, len(n.children))
	for k := range n.children {
		ks = append(ks, k)
	}
	sort.Strings(ks)
	return ks
}

// sessions ----------------------------------------------------------------------------------

func (z *ZKServer) expireSession(ss *zkSession, why string) {
	if ss.closed {
		return
	}
	ss.closed = true
	delete(z.sessions, ss.id)
	var paths []string
	for p, n := range z.tree {
		if n.owner == ss.id {
			paths = append(paths, p)
		}
	}
	sort.Strings(paths)
	z.record(ZKEvent{Op: why, Sess: ss.id, Inc: ss.owner})
	for _, p := range paths {
		pp, name := zparent(p)
		delete(z.tree, p)
		if par := z.tree[pp]; par != nil {
			delete(par.children, name)
			par.cversion++
		}
		z.zxid++
		z.record(ZKEvent{Op: "delete", Sess: ss.id, Inc: ss.owner, Path: p, Eph: true, Data: "<" + why + ">"})
	}
	if ss.conn != nil && why == "session_expired" {
		c := ss.conn
		ss.conn = nil
		if !c.srvClose {
			c.serverClose()
		}
	}
}

func (z *ZKServer) expiryTick() {
	if z.s.net.zkDown {
		return
	}
	ids := make([]int64, 0, len(z.sessions))
	for id := range z.sessions {
		ids = append(ids, id)
	}
	sort.Slice(ids, func(i, j int) bool { return ids[i] < ids[j] })
	for _, id := range ids {
		ss := z.sessions[id]
		if z.s.now()-ss.lastHeard > ss.timeout {
			z.s.stats.Probes["zk_session_expired"]++
			z.expireSession(ss, "session_expired")
		}
	}
}

func (z *ZKServer) connClosed(c *memConn) {
	if c.sess != nil && c.sess.conn == c {
		c.sess.conn = nil
		z.record(ZKEvent{Op: "conn_lost", Sess: c.sess.id, Inc: c.owner})
	}
}

// protocol ----------------------------------------------------------------------------------

type jr struct {
	b   []byte
	o   int
	bad bool
}

func (r *jr) need(n int) bool {
	if r.o+n > len(r.b) {
		r.bad = true
		return false
	}
	return true
}
func (r *jr) i32() int32 {
	if !r.need(4) {
		return 0
	}
	v := int32(binary.BigEndian.Uint32(r.b[r.o:]))
	r.o += 4
	return v
}
func (r *jr) i64() int64 {
	if !r.need(8) {
		return 0
	}
	v := int64(binary.BigEndian.Uint64(r.b[r.o:]))
	r.o += 8
	return v
}
func (r *jr) buf() []byte {
	n := int(r.i32())
	if n < 0 {
		return nil
	}
	if !r.need(n) {
		return nil
	}
	v := r.b[r.o : r.o+n]
	r.o += n
	return v
}
func (r *jr) str() string { return string(r.buf()) }
func (r *jr) boolean() bool {
	if !r.need(1) {
		return false
	}
	v := r.b[r.o] != 0
	r.o++
	return v
}

type jw struct{ b []byte }

func (w *jw) i32(v int32) { w.b = binary.BigEndian.AppendUint32(w.b, uint32(v)) }
func (w *jw) i64(v int64) { w.b = binary.BigEndian.AppendUint64(w.b, uint64(v)) }
func (w *jw) buf(v []byte) {
	if v == nil {
		w.i32(-1)
		return
	}
	w.i32(int32(len(v)))
	w.b = append(w.b, v...)
}
func (w *jw) stat(n *znode) {
	w.i64(n.czxid)
	w.i64(n.mzxid)
	w.i64(0)
	w.i64(0)
	w.i32(n.version)
	w.i32(n.cversion)
	w.i32(0)
	w.i64(n.owner)
	w.i32(int32(len(n.data)))
	w.i32(int32(len(n.children)))
	w.i64(n.mzxid)
}

func zframe(b []byte) []byte {
	out := make([]byte, 4+len(b))
	binary.BigEndian.PutUint32(out, uint32(len(b)))
	copy(out[4:], b)
	return out
}

const (
	zkErrNoNode        = -101
	zkErrNodeExists    = -110
	zkErrBadVersion    = -103
	zkErrNotEmpty      = -111
	zkErrNoChildEph    = -108
	zkErrSessExpired   = -112
	zkErrUnimplemented = -6
	zkErrBadArguments  = -8
)

func (z *ZKServer) handle(c *memConn, req []byte) {
	s := z.s
	c.curReq = req
	z.ops++
	s.stats.ZKRequests++
	if !c.shaken {
		c.shaken = true
		r := &jr{b: req}
		r.i32()
		r.i64()
		to := r.i32()
		sid := r.i64()
		pw := r.buf()
		w := &jw{}
		timeout := time.Duration(to) * time.Millisecond
		if min := time.Duration(s.spec.World.ZKMinSessionMs) * time.Millisecond; timeout < min {
			timeout = min
		}
		var ss *zkSession
		if sid != 0 {
			ss = z.sessions[sid]
			if ss == nil || string(ss.passwd) != string(pw) {
				// expired or unknown: tell the client
				w.i32(0)
				w.i32(0)
				w.i64(0)
				w.buf(make([]byte, 16))
				z.record(ZKEvent{Op: "reconnect_refused", Sess: sid, Inc: c.owner})
				s.net.sendDown(c, zframe(w.b))
				// server closes the connection afterwards
				cc := c
				s.after(2*time.Millisecond, "zk-close-after-expired", func() {
					if !cc.srvClose {
						cc.serverClose()
					}
				})
				return
			}
			if ss.conn != nil && ss.conn != c && !ss.conn.srvClose {
				ss.conn.serverClose()
			}
			z.record(ZKEvent{Op: "reconnect", Sess: sid, Inc: c.owner})
		} else {
			z.nextSess++
			pwb := make([]byte, 16)
			binary.BigEndian.PutUint64(pwb, uint64(z.nextSess)*0x9e3779b97f4a7c15)
			ss = &zkSession{id: z.nextSess, passwd: pwb, timeout: timeout, owner: c.owner}
			z.sessions[ss.id] = ss
			z.record(ZKEvent{Op: "session_new", Sess: ss.id, Inc: c.owner, Data: fmt.Sprint(timeout)})
		}
		ss.conn = c
		ss.lastHeard = s.now()
		c.sess = ss
		w.i32(0)
		w.i32(int32(ss.timeout / time.Millisecond))
		w.i64(ss.id)
		w.buf(ss.passwd)
		s.net.sendDown(c, zframe(w.b))
		return
	}
	ss := c.sess
	r := &jr{b: req}
	xid := r.i32()
	op := r.i32()
	if ss == nil || ss.closed {
		w := &jw{}
		w.i32(xid)
		w.i64(z.zxid)
		w.i32(zkErrSessExpired)
		s.net.sendDown(c, zframe(w.b))
		return
	}
	ss.lastHeard = s.now()
	if op == 11 { // ping
		w := &jw{}
		w.i32(-2)
		w.i64(z.zxid)
		w.i32(0)
		s.net.sendDown(c, zframe(w.b))
		return
	}
	// per-request fault decision (only for real operations)
	flt := s.zkFault(c, op, req)
	if flt == "reset_before" {
		c.serverClose()
		z.connClosed(c)
		return
	}
	body := &jw{}
	var errc int32
	ev := ZKEvent{Sess: ss.id, Inc: c.owner}
	switch op {
	case 1: // create
		path := r.str()
		data := append([]byte(nil), r.buf()...)
		nacl := int(r.i32())
		for i := 0; i < nacl && !r.bad; i++ {
			r.i32()
			r.str()
			r.str()
		}
		flags := r.i32()
		ev.Op, ev.Path, ev.Data, ev.Eph = "create", path, string(data), flags&1 != 0
		pp, name := zparent(path)
		switch {
		case r.bad || path == "" || path[0] != '/' || (len(path) > 1 && strings.HasSuffix(path, "/")) || strings.Contains(path, "//"):
			errc = zkErrBadArguments
		case z.tree[path] != nil:
			errc = zkErrNodeExists
		case z.tree[pp] == nil:
			errc = zkErrNoNode
		case z.tree[pp].owner != 0:
			errc = zkErrNoChildEph
		default:
			z.zxid++
			n := &znode{data: data, children: map[string]bool{}, czxid: z.zxid, mzxid: z.zxid}
			if flags&1 != 0 {
				n.owner = ss.id
			}
			z.tree[path] = n
			z.tree[pp].children[name] = true
			z.tree[pp].cversion++
			body.buf([]byte(path))
		}
	case 2: // delete
		path := r.str()
		ver := r.i32()
		ev.Op, ev.Path = "delete", path
		n := z.tree[path]
		switch {
		case path == "/":
			errc = zkErrBadArguments // the root cannot be deleted
		case n == nil:
			errc = zkErrNoNode
		case ver != -1 && ver != n.version:
			errc = zkErrBadVersion
		case len(n.children) > 0:
			errc = zkErrNotEmpty
		default:
			ev.Eph = n.owner != 0
			ev.Version = n.version
			pp, name := zparent(path)
			delete(z.tree, path)
			delete(z.tree[pp].children, name)
			z.tree[pp].cversion++
			z.zxid++
		}
	case 3: // exists
		path := r.str()
		r.boolean()
		ev.Op, ev.Path = "exists", path
		n := z.tree[path]
		if n == nil {
			errc = zkErrNoNode
		} else {
			body.stat(n)
		}
	case 4: // getData
		path := r.str()
		r.boolean()
		ev.Op, ev.Path = "get", path
		n := z.tree[path]
		if n == nil {
			errc = zkErrNoNode
		} else {
			body.buf(n.data)
			body.stat(n)
			ev.Data = string(n.data)
			ev.Version = n.version
			ev.Eph = n.owner != 0
		}
	case 5: // setData
		path := r.str()
		data := append([]byte(nil), r.buf()...)
		ver := r.i32()
		ev.Op, ev.Path, ev.Data = "set", path, string(data)
		n := z.tree[path]
		switch {
		case n == nil:
			errc = zkErrNoNode
		case ver != -1 && ver != n.version:
			errc = zkErrBadVersion
		default:
			z.zxid++
			n.data = data
			n.version++
			n.mzxid = z.zxid
			body.stat(n)
			ev.Version = n.version
			ev.Eph = n.owner != 0
		}
	case 8, 12: // getChildren, getChildren2
		path := r.str()
		r.boolean()
		ev.Op, ev.Path = "children", path
		n := z.tree[path]
		if n == nil {
			errc = zkErrNoNode
		} else {
			ks := z.children(path)
			body.i32(int32(len(ks)))
			for _, k := range ks {
				body.buf([]byte(k))
			}
			if op == 12 {
				body.stat(n)
			}
			ev.Data = strings.Join(ks, ",")
		}
	case 100: // setAuth
		ev.Op = "auth"
	case 101: // setWatches
		ev.Op = "setwatches"
	case -11: // close session
		ev.Op = "close"
		w := &jw{}
		w.i32(xid)
		w.i64(z.zxid)
		w.i32(0)
		s.net.sendDown(c, zframe(w.b))
		z.expireSession(ss, "session_closed")
		return
	default:
		ev.Op = fmt.Sprintf("op%d", op)
		errc = zkErrUnimplemented
		s.stats.Probes["zk_unimplemented_op"]++
	}
	ev.Err = errc
	z.record(ev)
	if flt == "reset_after" {
		c.serverClose()
		z.connClosed(c)
		return
	}
	w := &jw{}
	w.i32(xid)
	w.i64(z.zxid)
	w.i32(errc)
	if errc == 0 {
		w.b = append(w.b, body.b...)
	}
	if ev.Op == "get" && errc == 0 && z.onReply != nil {
		e2 := ev
		e2.Seq, e2.T = s.evSeq, s.now()
		s.net.sendDown(c, zframe(w.b), func() { z.onReply(&e2) })
		return
	}
	s.net.sendDown(c, zframe(w.b))
}

// static host provider stub (the production RandomHostProvider does real DNS + TCP probes)
type simHostProvider struct {
	servers []string
	i       int
	last    int
}

func (h *simHostProvider) Init(s []string) error { h.servers = s; h.last = -1; return nil }
func (h *simHostProvider) Len() int              { return len(h.servers) }
func (h *simHostProvider) Next() (string, bool) {
	srv := h.servers[h.i%len(h.servers)]
	retry := h.i > 0 && h.i%len(h.servers) == 0
	h.i++
	return srv, retry
}
func (h *simHostProvider) Connected() { h.i = 0 }
