package verifsim

import (
	"encoding/json"
	"fmt"
	"strings"
	"time"
)

type swJSON struct {
	From             string    `json:"from"`
	To               string    `json:"to"`
	Cause            string    `json:"cause"`
	InitiatedBy      string    `json:"initiated_by"`
	InitiatedAt      time.Time `json:"initiated_at"`
	MasterTransition string    `json:"master_transition"`
	StartedBy        string    `json:"started_by"`
	StartedAt        time.Time `json:"started_at"`
	Result           *struct {
		Ok         bool      `json:"ok"`
		Error      string    `json:"error"`
		FinishedAt time.Time `json:"finished_at"`
	} `json:"result"`
	RunCount int `json:"run_count"`
}

func parseSwitch(raw string) *swJSON {
	if raw == "" {
		return nil
	}
	var s swJSON
	if json.Unmarshal([]byte(raw), &s) != nil {
		return nil
	}
	return &s
}

func (s *swJSON) key() string {
	return s.InitiatedBy + "@" + s.InitiatedAt.UTC().Format(time.RFC3339Nano)
}

type reqState struct {
	key          string
	first        *swJSON
	createdT     time.Duration
	createdBy    string
	runCount     int
	attempts     int
	openBy       string // incarnation inside an attempt
	openStart    time.Time
	terminal     string // "", ok, rejected, aborted
	deletedBy    string
	deletedSeq   uint64
	abortedSeq   uint64
	lastStarted  time.Time
	overdueIters int
	limitIters   int
}

// C06 - every switch request reaches exactly one terminal outcome, in bounded time.
type orC06 struct {
	baseOracle
	cur           *reqState
	reqs          map[string]*reqState
	pendingDelete *reqState // deleted by a daemon, record not yet seen
}

func (o *orC06) name() string { return "C06" }

func (o *orC06) simNow() time.Time { return o.m.s.t0.Add(o.m.s.now()) }

func (o *orC06) onZK(e *ZKEvent) {
	if e.Err != 0 {
		return
	}
	m := o.m
	if o.reqs == nil {
		o.reqs = map[string]*reqState{}
	}
	rel := strings.TrimPrefix(e.Path, "/test/")
	byDaemon := m.isDaemon(e.Inc)
	switch rel {
	case "switch":
		switch e.Op {
		case "create", "set":
			sw := parseSwitch(e.Data)
			if sw == nil {
				return
			}
			k := sw.key()
			if o.cur != nil && o.cur.terminal == "" && o.cur.key != k {
				// (4) a new request over a pending one
				if prev := o.reqs[k]; prev != nil && prev.terminal == "overwritten" && byDaemon {
					// the manager writes the request it is working on back over the one an external
					// tool had put in its place: both are the tool's doing
					o.cur.terminal = "overwritten"
					prev.terminal = ""
					prev.runCount = sw.RunCount
					prev.lastStarted = sw.StartedAt
					o.cur = prev
					return
				}
				if e.Inc != "external" {
					m.violate("C06", "overwrite_pending", "new-request-filed-over-pending-one", fmt.Sprintf("%s wrote request %s while %s was pending", e.Inc, k, o.cur.key))
				} else {
					o.cur.terminal = "overwritten" // external tools are outside the quantifier
					o.cur.openBy = ""
				}
			}
			// a request that has ended (recorded, or aborted by the operator) does not come back
			if prev := o.reqs[k]; prev != nil && byDaemon && (prev.terminal == "ok" || prev.terminal == "rejected" || prev.terminal == "aborted") {
				sig := "ended-request-written-back-by-manager:" + prev.terminal
				if prev.terminal == "aborted" {
					// the abort landed between the manager's look at the request and its next write of
					// it, with no statement of the manager in between: nothing it could have noticed
					raced := true
					if it := m.iters[e.Inc]; it != nil {
						for _, x := range it.sql {
							if x.Src == e.Inc && x.Seq > prev.abortedSeq {
								raced = false
							}
						}
					}
					if raced {
						sig += ":abort-raced-with-the-write"
					}
				}
				m.violate("C06", "resurrected", sig, fmt.Sprintf("%s wrote request %s back into /switch (run_count=%d) after it had ended as %s", e.Inc, k, sw.RunCount, prev.terminal))
			}
			if o.cur == nil || o.cur.key != k || o.cur.terminal != "" {
				o.cur = &reqState{key: k, first: sw, createdT: m.s.now(), createdBy: e.Inc, runCount: sw.RunCount}
				o.reqs[k] = o.cur
				m.probe("c06_request_filed_by_" + o.initiator(e.Inc, sw))
				return
			}
			r := o.cur
			if !byDaemon {
				return
			}
			// crash-point families: the first write of the request by a daemon is the start of
			// its first attempt (whatever that write contains)
			if m.s.spec.CrashAt != nil && m.s.spec.CrashAt.ArmAfterMs == 0 && m.s.crashInc == "" && !m.s.crashDone {
				m.s.crashInc = e.Inc
			}
			if !sw.StartedAt.Equal(r.lastStarted) {
				r.lastStarted = sw.StartedAt
				// StartSwitchover (the result of a previous failed attempt stays in the record)
				// (an incarnation that lost the lock - cut from ZooKeeper, session expired - may still
				// be inside its attempt when the new lock owner starts one: that is C03/C07 territory)
				if r.openBy != "" && r.openBy != e.Inc && m.lockOwner != e.Inc {
					m.violate("C06", "concurrent_attempts", "two-incarnations-inside-an-attempt", fmt.Sprintf("%s started an attempt on %s while %s was inside one", e.Inc, r.key, r.openBy))
				}
				r.openBy = e.Inc
				r.attempts++
				if m.s.spec.CrashAt != nil && m.s.spec.CrashAt.ArmAfterMs == 0 && m.s.crashInc == "" && !m.s.crashDone {
					m.s.crashInc = e.Inc // arm the crash point counter
				}
				m.probe("c06_attempt_started")
				// (3) no attempt starts after the timeout / attempt limit
				cfg := &m.s.spec.Cfg
				if !sw.InitiatedAt.IsZero() && o.simNow().Sub(sw.InitiatedAt) > ms(cfg.SwitchoverTimeoutMs)+time.Second {
					m.violate("C06", "attempt_after_timeout", "attempt-started-after-switchover-timeout", fmt.Sprintf("%s started an attempt on %s %v after it was filed (timeout %dms)", e.Inc, r.key, o.simNow().Sub(sw.InitiatedAt), cfg.SwitchoverTimeoutMs))
				}
				if sw.MasterTransition != "failover" && cfg.SwitchoverMaxAttempts > 0 && sw.RunCount >= cfg.SwitchoverMaxAttempts {
					m.violate("C06", "attempt_after_limit", "attempt-started-after-attempt-limit", fmt.Sprintf("%s started attempt with run_count=%d >= max %d on %s", e.Inc, sw.RunCount, cfg.SwitchoverMaxAttempts, r.key))
				}
			} else {
				// FailSwitchover: counts the attempt
				if sw.RunCount != r.runCount+1 {
					m.violate("C06", "run_count", "failed-attempt-not-counted-by-exactly-one", fmt.Sprintf("%s wrote run_count=%d after %d on %s", e.Inc, sw.RunCount, r.runCount, r.key))
				}
				r.runCount = sw.RunCount
				r.openBy = ""
				m.probe("c06_attempt_failed")
			}
		case "delete":
			if o.cur == nil || o.cur.terminal != "" {
				return
			}
			r := o.cur
			if byDaemon {
				r.deletedBy, r.deletedSeq = e.Inc, e.Seq
				r.openBy = ""
				o.pendingDelete = r
			} else {
				r.terminal = "aborted"
				r.abortedSeq = e.Seq
				r.openBy = ""
				m.probe("c06_aborted_by_operator")
			}
		}
	case "last_switch", "last_rejected_switch":
		if e.Op != "set" && e.Op != "create" {
			return
		}
		sw := parseSwitch(e.Data)
		if sw == nil {
			return
		}
		k := sw.key()
		r := o.reqs[k]
		if r == nil {
			return // pre-seeded by the scenario
		}
		out := "ok"
		if rel == "last_rejected_switch" {
			out = "rejected"
		}
		if r.terminal != "" && !(r.terminal == "aborted") {
			m.violate("C06", "two_outcomes", "request-recorded-with-two-terminal-outcomes", fmt.Sprintf("%s recorded %s for %s which already ended %s", e.Inc, out, k, r.terminal))
		}
		r.terminal = out
		if o.pendingDelete == r {
			o.pendingDelete = nil
		}
		m.probe("c06_terminal_" + out)
		if sw.Result != nil {
			if out == "rejected" && r.runCount > 0 && (strings.Contains(sw.Result.Error, "no quorum") || strings.Contains(sw.Result.Error, "no alive active replica")) && !strings.Contains(sw.Result.Error, "timed out") {
				m.violate("C06", "rejudged", "approved-request-rejected-for-quorum-on-retry", fmt.Sprintf("%s run_count=%d rejected: %s", k, r.runCount, sw.Result.Error))
			}
			if out == "ok" {
				// (7) success implies recorded master is the promoted node and writable
				mst := m.master
				sv := m.s.mysql.servers[mst]
				switch {
				case sw.To != "" && mst != sw.To:
					m.violate("C06", "success_wrong_master", "success-recorded-but-master-is-not-target", fmt.Sprintf("%s succeeded, to=%s, recorded master=%s", k, sw.To, mst))
				case sw.From != "" && mst == sw.From:
					m.violate("C06", "success_wrong_master", "success-recorded-but-master-still-from-host", fmt.Sprintf("%s succeeded, from=%s, recorded master=%s", k, sw.From, mst))
				case sv == nil || (sv.Up && sv.ReadOnly):
					m.violate("C06", "success_not_writable", "success-recorded-but-master-read-only", fmt.Sprintf("%s succeeded but recorded master %s is read-only", k, mst))
				}
			}
		}
	}
}

func (o *orC06) initiator(inc string, sw *swJSON) string {
	switch {
	case inc == "external":
		return "worker"
	case o.m.isDaemon(inc):
		return "daemon"
	}
	return "cli"
}

func (o *orC06) onIterLeave(it *iterRec) {
	m := o.m
	cfg := &m.s.spec.Cfg
	// a daemon that deleted the request must have written its record in the same iteration
	if r := o.pendingDelete; r != nil && r.deletedBy == it.inc && it.next != "<killed>" {
		o.pendingDelete = nil
		// (C06 is stated for coordination calls that succeed: a manager cut from ZooKeeper or
		// hit by a failing call between the delete and the record is C07's subject)
		if r.terminal == "" && !(it.faults == 0 && m.s.spec.CrashAt == nil) {
			r.terminal = "lost-by-fault" // gone from the tree, no longer pending
		} else if r.terminal == "" {
			m.violate("C06", "lost_outcome", "request-deleted-by-manager-without-record", fmt.Sprintf("%s deleted %s without writing last_switch/last_rejected_switch", it.inc, r.key))
			r.terminal = "lost"
		}
	}
	if it.state != "Manager" || it.next != "Manager" || !it.ownedLock {
		return
	}
	r := o.cur
	if r == nil || r.terminal != "" || r.createdT > it.startT {
		return
	}
	// bound applies only outside maintenance
	if m.maintRaw != "" {
		return
	}
	sw := r.first
	startWall := m.s.t0.Add(it.startT)
	if !sw.InitiatedAt.IsZero() && startWall.Sub(sw.InitiatedAt) > ms(cfg.SwitchoverTimeoutMs) {
		r.overdueIters++
		m.probe("c06_iteration_past_timeout")
		if r.overdueIters >= 3 {
			m.violate("C06", "pending_past_timeout", "request-still-pending-after-switchover-timeout", fmt.Sprintf("%s still pending after %d complete manager iterations that began past initiated_at+switchover_timeout (%dms); run_count=%d", r.key, r.overdueIters, cfg.SwitchoverTimeoutMs, r.runCount))
		}
	}
	if sw.MasterTransition != "failover" && cfg.SwitchoverMaxAttempts > 0 && r.runCount >= cfg.SwitchoverMaxAttempts {
		r.limitIters++
		m.probe("c06_iteration_past_attempt_limit")
		if r.limitIters >= 3 {
			m.violate("C06", "pending_past_limit", "request-still-pending-after-attempt-limit", fmt.Sprintf("%s still pending with run_count=%d >= max %d", r.key, r.runCount, cfg.SwitchoverMaxAttempts))
		}
	}
}

// a dead incarnation is no longer inside an attempt; what it left unfinished is C07's subject
func (o *orC06) onDaemonGone(inc string) {
	if o.cur != nil && o.cur.openBy == inc {
		o.cur.openBy = ""
	}
	if o.pendingDelete != nil && o.pendingDelete.deletedBy == inc {
		o.pendingDelete.terminal = "lost-by-crash"
		o.pendingDelete = nil
	}
}
