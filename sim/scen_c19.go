package verifsim

import "fmt"

// family optimization (C19)
func genOptimization(r *rng, index int) *Spec {
	semi := index%5 != 4
	mode := (index / 5) % 7 // 6 unreadable registry entry of the relaxed host; 5 batch restore with one failing host; 0 random, 1 crowded registry, 2 failover, 3 fault windows, 4 switchover with failing restore
	sp := baseSpec(r, shapeOpt{minHA: 3, maxHA: 4, cascade: 0.3, semiSync: &semi})
	c := &sp.Cfg
	ha := sp.haNames()
	master := ha[0]
	c.Failover = false
	c.CustomLagQuery = true
	c.AggressiveRepair = false
	c.OfflineEnableLagMs = 100000000
	c.OfflineDisableLagMs = 90000000
	marks := [][2]int64{{120000, 60000}, {60000, 30000}, {30000, 10000}}[r.intn(3)]
	c.OptHighMs, c.OptLowMs = marks[0], marks[1]
	high, low := marks[0]/1000, marks[1]/1000
	c.ForceSwitchover = false
	sp.World.AutoResetupMs = 0
	// the cluster's durability level
	switch r.intn(6) {
	case 0:
		sp.hostSpecByName(master).Init = &InitState{FlushLog: 2, SyncBinlog: 1000} // as relaxed as "optimal" already
	case 1:
		sp.hostSpecByName(master).Init = &InitState{FlushLog: 1, SyncBinlog: 100}
	case 2:
		sp.hostSpecByName(master).Init = &InitState{FlushLog: 2, SyncBinlog: 1}
	}
	var repl []string
	for _, h := range sp.Hosts {
		if h.Name != master {
			repl = append(repl, h.Name)
		}
	}
	lagVals := []int64{0, low - 1, low, low + 1, high - 1, high, high + 1, 5000, -2}
	var script []string
	for _, h := range repl {
		hs := sp.hostSpecByName(h)
		in := &InitState{}
		if mi := sp.hostSpecByName(master).Init; mi != nil {
			in.FlushLog, in.SyncBinlog = mi.FlushLog, mi.SyncBinlog
		}
		if hs.Init != nil {
			in = hs.Init
		}
		switch r.intn(4) {
		case 0:
			in.FlushLog, in.SyncBinlog = 2, 1000
		case 1:
			in.FlushLog, in.SyncBinlog = 2, 1
		}
		hs.Init = in
		lv := lagVals[r.intn(len(lagVals))]
		if mode == 5 {
			// everything registered, relaxed and converged (or lost): the first sync restores them in one batch
			in.FlushLog, in.SyncBinlog = 2, 1000
			lv = []int64{0, low - 1, 0, -2}[r.intn(4)]
		}
		if mode == 1 || mode == 4 {
			lv = []int64{high, high + 1, 5000, 5000, low + 1}[r.intn(5)]
		}
		sp.Timeline = append(sp.Timeline, TLEvent{AtMs: 100, Kind: "lag", Host: h, N: lv})
		script = append(script, fmt.Sprintf("%s=%d", h, lv))
		if r.chance(0.5) || mode == 1 || mode == 5 || (mode == 4 && r.chance(0.6)) {
			st := []string{`{"status":""}`, `{"status":"enabled"}`}[r.intn(2)]
			sp.Timeline = append(sp.Timeline, TLEvent{AtMs: 60, Kind: "zk_set", Arg: "/test/optimization_nodes/" + h, Arg2: st})
			script = append(script, "reg("+h+")")
		}
	}
	if mode == 6 && len(repl) >= 2 {
		// the entry of the replica that is already relaxed cannot be read (an external tool left
		// garbage in it); another registered replica is waiting for its turn
		r1, r2 := repl[0], repl[1]
		sp.Timeline = append(sp.Timeline, TLEvent{AtMs: 70, Kind: "zk_set", Arg: "/test/optimization_nodes/" + r1, Arg2: []string{`not json{`, `[]`, `12345`}[r.intn(3)]})
		sp.Timeline = append(sp.Timeline, TLEvent{AtMs: 70, Kind: "zk_set", Arg: "/test/optimization_nodes/" + r2, Arg2: `{"status":""}`})
		sp.hostSpecByName(r1).Init.FlushLog, sp.hostSpecByName(r1).Init.SyncBinlog = 2, 1000
		mi := sp.hostSpecByName(master).Init
		sp.hostSpecByName(r2).Init.FlushLog, sp.hostSpecByName(r2).Init.SyncBinlog = 0, 0
		if mi != nil {
			sp.hostSpecByName(r2).Init.FlushLog, sp.hostSpecByName(r2).Init.SyncBinlog = mi.FlushLog, mi.SyncBinlog
		}
		sp.Timeline = append(sp.Timeline, TLEvent{AtMs: 110, Kind: "lag", Host: r1, N: 5000})
		sp.Timeline = append(sp.Timeline, TLEvent{AtMs: 110, Kind: "lag", Host: r2, N: 4000})
		script = append(script, fmt.Sprintf("unreadable_entry(%s) waiting(%s)", r1, r2))
	}
	sp.Timeline = append(sp.Timeline, TLEvent{AtMs: 50, Kind: "zk_set", Arg: "/test/optimization_nodes", Arg2: `""`})
	if r.chance(0.12) {
		sp.Timeline = append(sp.Timeline, TLEvent{AtMs: 60, Kind: "zk_set", Arg: "/test/optimization_nodes/" + master, Arg2: `{"status":""}`})
		script = append(script, "reg(master)")
	}
	if r.chance(0.12) {
		sp.Timeline = append(sp.Timeline, TLEvent{AtMs: 60, Kind: "zk_set", Arg: "/test/optimization_nodes/ghost", Arg2: `{"status":"enabled"}`})
		script = append(script, "reg(ghost)")
	}
	T := int64(9000)
	nEv := r.rangeInt(2, 7)
	if mode == 6 {
		nEv = r.intn(2)
	}
	if mode == 5 {
		h := repl[r.intn(len(repl))]
		pre := []string{"SET GLOBAL sync_binlog", "SET GLOBAL innodb_flush_log_at_trx_commit"}[r.intn(2)]
		sp.StmtFail = append(sp.StmtFail, StmtFail{Host: h, Prefix: pre, Errno: 1105, FromMs: 0, ToMs: int64(r.pickInt(4000, 9000, 15000))})
		script = append(script, fmt.Sprintf("restore_fails(%s)", h))
		nEv = r.intn(3)
	}
	if mode == 2 {
		// automatic failover with registered / relaxed candidates
		c.Failover = true
		c.FailoverDelayMs = int64(r.pickInt(0, 2000))
		c.FailoverCooldownMs = 0
		sp.Hosts[0].StartDelayMs = 3000
	}
	if mode == 4 {
		// restoring a registered candidate fails while a switchover wants to start
		h := ha[1+r.intn(len(ha)-1)]
		at := T + int64(r.intn(5000))
		pre := []string{"SET GLOBAL sync_binlog", "SET GLOBAL innodb_flush_log_at_trx_commit"}[r.intn(2)]
		sp.StmtFail = append(sp.StmtFail, StmtFail{Host: h, Prefix: pre, Errno: 1105, FromMs: at - 6000, ToMs: at + int64(r.pickInt(4000, 9000, 20000))})
		sp.Timeline = append(sp.Timeline, TLEvent{AtMs: 60, Kind: "zk_set", Arg: "/test/optimization_nodes/" + h, Arg2: `{"status":""}`})
		sp.hostSpecByName(h).Init.FlushLog, sp.hostSpecByName(h).Init.SyncBinlog = 2, 1000
		to := ha[1+r.intn(len(ha)-1)]
		sp.Timeline = append(sp.Timeline, TLEvent{AtMs: at, Kind: "cli_switch_to", Host: master, Arg: to, DurMs: 60000})
		script = append(script, fmt.Sprintf("restore_fails(%s)+switch_to(%s)@%d", h, to, at/1000))
		nEv = r.intn(3)
		T = at + 10000
	}
	for i := 0; i < nEv; i++ {
		T += int64(r.pickInt(1500, 3000, 6000, 9000))
		h := repl[r.intn(len(repl))]
		ek := r.intn(12)
		if mode == 3 && r.chance(0.5) {
			ek = 8
		}
		if mode == 2 && i == nEv-1 {
			ek = 12
		}
		switch ek {
		case 12:
			sp.Timeline = append(sp.Timeline, TLEvent{AtMs: T, Kind: "kill_mysql", Host: master, Fault: true})
			script = append(script, fmt.Sprintf("master_dies@%d", T/1000))
			if r.chance(0.6) && len(ha) > 1 {
				// a registered, relaxed candidate cannot be restored while the failover wants to start
				x := ha[1+r.intn(len(ha)-1)]
				pre := []string{"SET GLOBAL sync_binlog", "SET GLOBAL innodb_flush_log_at_trx_commit"}[r.intn(2)]
				sp.StmtFail = append(sp.StmtFail, StmtFail{Host: x, Prefix: pre, Errno: 1105, FromMs: T - 2000, ToMs: T + int64(r.pickInt(6000, 12000, 25000))})
				sp.Timeline = append(sp.Timeline, TLEvent{AtMs: 60, Kind: "zk_set", Arg: "/test/optimization_nodes/" + x, Arg2: `{"status":""}`})
				sp.Timeline = append(sp.Timeline, TLEvent{AtMs: 100, Kind: "lag", Host: x, N: 5000})
				sp.hostSpecByName(x).Init.FlushLog, sp.hostSpecByName(x).Init.SyncBinlog = 2, 1000
				script = append(script, fmt.Sprintf("restore_fails(%s)", x))
			}
			T += 15000
		case 0, 1, 2, 3:
			lv := lagVals[r.intn(len(lagVals))]
			sp.Timeline = append(sp.Timeline, TLEvent{AtMs: T, Kind: "lag", Host: h, N: lv})
			script = append(script, fmt.Sprintf("%s=%d@%d", h, lv, T/1000))
		case 4, 5:
			sp.Timeline = append(sp.Timeline, TLEvent{AtMs: T, Kind: "cli_opt_on", Host: h})
			script = append(script, fmt.Sprintf("on(%s)@%d", h, T/1000))
		case 6:
			sp.Timeline = append(sp.Timeline, TLEvent{AtMs: T, Kind: "cli_opt_off", Host: h})
			script = append(script, fmt.Sprintf("off(%s)@%d", h, T/1000))
		case 7:
			sp.Timeline = append(sp.Timeline, TLEvent{AtMs: T, Kind: "cli_opt_off_all", Host: h})
			script = append(script, fmt.Sprintf("off_all@%d", T/1000))
		case 8:
			pre := []string{"SET GLOBAL sync_binlog", "SET GLOBAL innodb_flush_log_at_trx_commit"}[r.intn(2)]
			sp.StmtFail = append(sp.StmtFail, StmtFail{Host: h, Prefix: pre, Errno: 1105, FromMs: T, ToMs: T + int64(r.pickInt(1000, 4000, 9000))})
			script = append(script, fmt.Sprintf("settings_fail(%s)@%d", h, T/1000))
		case 9:
			sp.Timeline = append(sp.Timeline, TLEvent{AtMs: T, Kind: "kill_mysql", Host: h, Fault: true, DurMs: int64(r.pickInt(0, 4000, 9000))})
			script = append(script, fmt.Sprintf("down(%s)@%d", h, T/1000))
		case 10:
			sp.Timeline = append(sp.Timeline, TLEvent{AtMs: T, Kind: "cli_host_remove", Host: master, Arg: h})
			script = append(script, fmt.Sprintf("remove(%s)@%d", h, T/1000))
		case 11:
			// planned switchover, possibly to a lagging / registered / relaxed replica
			to := ha[1+r.intn(len(ha)-1)]
			sp.Timeline = append(sp.Timeline, TLEvent{AtMs: T, Kind: "cli_switch_to", Host: master, Arg: to, DurMs: 60000})
			script = append(script, fmt.Sprintf("switch_to(%s)@%d", to, T/1000))
			T += 12000
		}
	}
	if r.chance(0.2) || (mode == 3 && r.chance(0.6)) {
		sp.Rates = RateSpec{FromMs: 9000, ToMs: T, SQLErr: 0.008, SQLLost: 0.004, ZKReset: 0.004, ZKResetAfter: 0.004}
	}
	sp.Variant = fmt.Sprintf("mode=%d semi=%v marks=%d/%d %v", mode, semi, high, low, script)
	sp.DurationMs = T + 25000
	sp.Primary = []string{"C19"}
	return sp
}
