package verifsim

import "fmt"

const crashN = 140

// family crashpoints (C07): crash of the managing process after/before each external call of the
// switchover procedure, or loss of ZooKeeper at that point.
func genCrashpoints(r *rng, index int, stride int) *Spec {
	sp := baseSpec(r, shapeOpt{minHA: 2, maxHA: 4, cascade: 0.15})
	c := &sp.Cfg
	c.SemiSync = r.chance(0.9)
	c.FailoverCooldownMs = 0
	c.FailoverDelayMs = int64(r.pickInt(0, 2000))
	c.ForceSwitchover = false
	c.SwitchoverTimeoutMs = 120000
	c.SwitchoverMaxAttempts = 60
	ha := sp.haNames()
	kinds := []string{"to", "from", "failover_flag", "worker", "auto_kill_mysql", "auto_kill_host"}
	kind := kinds[r.intn(len(kinds))]
	T0 := int64(14000 + r.intn(4000))
	v := addSwitchRequest(sp, r, kind, T0)
	// make the auto kinds permanent so that the final state is well defined
	for i := range sp.Timeline {
		if sp.Timeline[i].Kind == "kill_mysql" || sp.Timeline[i].Kind == "kill_host" {
			sp.Timeline[i].DurMs = 0
		}
	}
	n := index%crashN + 1
	if stride > 1 {
		// quick tier: every stride-th crash point of each scenario, offset rotating per scenario
		per := crashN / stride
		n = (index%per)*stride + 1 + (index/per)%stride
	}
	mode := []string{"after", "after", "before", "zkcut"}[(index/crashN+index)%4]
	ca := &CrashAt{N: n, Mode: mode}
	if r.chance(0.6) {
		ca.RestartMs = int64(r.pickInt(1000, 5000, 15000, 30000))
	}
	if mode == "zkcut" {
		// the shipped default of the lock cache (30 s) in most of these runs: what it remembers must
		// not outlive the connection
		c.LockHeldTTLMs = int64(r.pickInt(30000, 30000, 1000))
		ca.CutMs = c.SessionTimeoutMs + int64(r.pickInt(1500, 8000, 20000))
		if r.chance(0.5) {
			// long catch-up (slow appliers everywhere) and a short cut: the cut manager is back in a
			// new session while it still waits for its candidate to catch up
			for i := range sp.Hosts {
				if sp.Hosts[i].Role == "ha" && i > 0 {
					sp.Hosts[i].Init = &InitState{ApplyDelayMs: int64(r.pickInt(500, 600, 700))}
				}
			}
			sp.World.ClientWriteMs = 300
			c.SlaveCatchUpTimeoutMs = 60000
			ca.CutMs = c.SessionTimeoutMs + 1500
		}
	}
	sp.CrashAt = ca
	sp.World.AutoResetupMs = 8000
	sp.HealAtMs = T0 + 40000
	sp.LivenessMs = sp.boundMs() + 30000
	sp.DurationMs = sp.HealAtMs + sp.LivenessMs
	sp.Variant = fmt.Sprintf("%s %s nHA=%d crash n=%d mode=%s restart=%d", kind, v, len(ha), n, mode, ca.RestartMs)
	sp.Primary = []string{"C07"}
	return sp
}
