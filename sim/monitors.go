package verifsim

// Monitors: shared observation state + dispatch to the per-property oracles.

import (
	"encoding/json"
	"fmt"
	"sort"
	"strings"
	"time"
)

type zkRead struct {
	t    time.Duration
	seq  uint64
	path string
	data string
	err  int32
	op   string
}

type iterRec struct {
	inc       string
	state     string
	next      string
	n         int
	startSeq  uint64
	startT    time.Duration
	endSeq    uint64
	endT      time.Duration
	ownedLock bool // owned the lock znode at some instant of the window (so far)
	reads     []zkRead
	sql       []*SQLEvent
	zkWrites  []*ZKEvent
	faults    int
	open      bool
}

type ackRec struct {
	g       GTID
	server  string
	client  string
	tCommit time.Duration
	tDone   time.Duration
	outcome string
}

type Monitors struct {
	s *Sim

	violations []Violation
	seenSig    map[string]bool
	primary    map[string]bool

	// zk-derived truth
	lockOwner     string // incarnation owning /test/manager ("" = none)
	lockSess      int64
	lockChanges   int
	lockSince     time.Duration
	master        string
	active        []string
	activeSet     bool
	switchRaw     string
	maintRaw      string
	diskHist      map[string][]lagSample   // ground truth of disk usage per host (lag = percent, ok = measurable)
	recoverySince map[string]time.Duration // when the present mark of a host appeared
	deregAt       map[string]time.Duration // hosts removed from ha_nodes and not added back: when
	recovery      map[string]bool
	sessInc       map[int64]string
	sessAlive     map[int64]bool

	iters   map[string]*iterRec // current open iteration per incarnation
	allIter []*iterRec

	acks           []ackRec
	acked          GTIDSet
	pendingCommits int

	faultsTotal int
	lastFaultT  time.Duration

	promotions []promotion

	// abstract-state coverage
	states      map[string]bool
	transitions map[string]bool
	lastState   string
	traj        uint64
	interleave  map[string]bool

	recent  map[string][]*SQLEvent // per incarnation: its last statements (background loops included)
	oracles []oracle
	final   *finalOracle
	opsDone int
}

type promotion struct {
	seq  uint64
	t    time.Duration
	by   string
	host string
}

// oracle is the interface every per-property monitor implements (all methods optional via embedding base).
type oracle interface {
	name() string
	onSQL(ev *SQLEvent)
	onZK(e *ZKEvent)
	onIterEnter(it *iterRec)
	onIterLeave(it *iterRec)
	onAck(a *ackRec)
	afterEvent()
	atEnd()
}

type baseOracle struct{ m *Monitors }

func (baseOracle) onSQL(*SQLEvent)      {}
func (baseOracle) onZK(*ZKEvent)        {}
func (baseOracle) onIterEnter(*iterRec) {}
func (baseOracle) onIterLeave(*iterRec) {}
func (baseOracle) onAck(*ackRec)        {}
func (baseOracle) afterEvent()          {}
func (baseOracle) atEnd()               {}

func newMonitors(s *Sim) *Monitors {
	m := &Monitors{s: s, seenSig: map[string]bool{}, primary: map[string]bool{}, recovery: map[string]bool{}, sessInc: map[int64]string{}, sessAlive: map[int64]bool{},
		iters: map[string]*iterRec{}, acked: GTIDSet{}, states: map[string]bool{}, transitions: map[string]bool{}, interleave: map[string]bool{}}
	for _, p := range s.spec.Primary {
		m.primary[p] = true
	}
	s.zk.onEvent = m.onZKEvent
	s.zk.onReply = func(e *ZKEvent) {
		for _, o := range m.oracles {
			if r, ok := o.(interface{ onZKReply(e *ZKEvent) }); ok {
				r.onZKReply(e)
			}
		}
	}
	return m
}

func (m *Monitors) violate(prop, clause, culprit, detail string) {
	sig := prop + "/" + clause + "/" + culprit
	if m.seenSig[sig] {
		return
	}
	m.seenSig[sig] = true
	v := Violation{Property: prop, Clause: clause, Signature: sig, SimTimeMs: int64(m.s.now() / time.Millisecond), EventSeq: m.s.evSeq, Detail: detail}
	m.violations = append(m.violations, v)
	m.s.trace("VIOLATION %s %s", sig, detail)
	if m.primary[prop] && !m.s.spec.Pilot {
		// keep running a little so that the trace shows the aftermath, then stop
		m.s.after(50*time.Millisecond, "stop-after-violation", func() { m.s.stop = true; m.s.stopWhy = "violation" })
	}
}

func (m *Monitors) probe(name string) { m.s.stats.Probes[name]++ }

// ---------------------------------------------------------------- helpers on truth

func (m *Monitors) isHA(host string) bool {
	_, ok := m.s.zk.get("/test/ha_nodes/" + host)
	return ok
}
func (m *Monitors) isCascade(host string) bool {
	_, ok := m.s.zk.get("/test/cascade_nodes/" + host)
	return ok
}
func (m *Monitors) daemonOf(inc string) *Daemon { return m.s.daemons[inc] }
func (m *Monitors) isDaemon(inc string) bool {
	d := m.s.daemons[inc]
	return d != nil && d.kind == "daemon"
}

func quorumFor(nActive int, cfg *CfgSpec) int {
	if !cfg.SemiSync {
		return 1
	}
	w := nActive / 2
	if cfg.WaitSlaveCount < w {
		w = cfg.WaitSlaveCount
	}
	q := nActive - w
	if q < 1 {
		q = 1
	}
	return q
}

func requiredWaitCount(nActive int, cfg *CfgSpec) int {
	w := nActive / 2
	if cfg.WaitSlaveCount < w {
		w = cfg.WaitSlaveCount
	}
	return w
}

func parseStrList(raw string) []string {
	var r []string
	if json.Unmarshal([]byte(raw), &r) != nil {
		return nil
	}
	return r
}

func contains(xs []string, x string) bool {
	for _, y := range xs {
		if y == x {
			return true
		}
	}
	return false
}

// ---------------------------------------------------------------- dispatch

func (m *Monitors) onZKEvent(e *ZKEvent) {
	// session bookkeeping
	switch e.Op {
	case "session_new", "reconnect":
		m.sessInc[e.Sess] = e.Inc
		m.sessAlive[e.Sess] = true
	case "session_expired", "session_closed":
		m.sessAlive[e.Sess] = false
	}
	ok := e.Err == 0
	rel := strings.TrimPrefix(e.Path, "/test/")
	if e.Path == "/test" {
		rel = ""
	}
	// truth tracking
	if ok {
		switch {
		case rel == "manager":
			switch e.Op {
			case "create":
				m.lockOwner, m.lockSess = e.Inc, e.Sess
				m.lockChanges++
				m.lockSince = m.s.now()
				for _, it := range m.iters {
					if it.open && it.inc == e.Inc {
						it.ownedLock = true
					}
				}
			case "delete":
				m.lockOwner, m.lockSess = "", 0
				m.lockChanges++
			}
		case rel == "master":
			if e.Op == "set" || e.Op == "create" {
				m.master = strings.Trim(e.Data, `"`)
			} else if e.Op == "delete" {
				m.master = ""
			}
		case rel == "active_nodes":
			if e.Op == "set" || e.Op == "create" {
				m.active = parseStrList(e.Data)
				m.activeSet = true
			} else if e.Op == "delete" {
				m.active = nil
				m.activeSet = false
			}
		case rel == "switch":
			if e.Op == "set" || e.Op == "create" {
				m.switchRaw = e.Data
			} else if e.Op == "delete" {
				m.switchRaw = ""
			}
		case rel == "maintenance":
			if e.Op == "set" || e.Op == "create" {
				m.maintRaw = e.Data
			} else if e.Op == "delete" {
				m.maintRaw = ""
			}
		case strings.HasPrefix(rel, "ha_nodes/") && !strings.Contains(strings.TrimPrefix(rel, "ha_nodes/"), "/"):
			h := strings.TrimPrefix(rel, "ha_nodes/")
			if m.deregAt == nil {
				m.deregAt = map[string]time.Duration{}
			}
			if e.Op == "delete" {
				m.deregAt[h] = e.T
			} else if e.Op == "create" {
				delete(m.deregAt, h)
			}
		case strings.HasPrefix(rel, "recovery/"):
			h := strings.TrimPrefix(rel, "recovery/")
			if e.Op == "create" || e.Op == "set" {
				if !m.recovery[h] {
					if m.recoverySince == nil {
						m.recoverySince = map[string]time.Duration{}
					}
					m.recoverySince[h] = e.T
				}
				m.recovery[h] = true
			} else if e.Op == "delete" {
				delete(m.recovery, h)
			}
		}
	}
	// attribute to the open iteration of the issuing incarnation
	if it := m.iters[e.Inc]; it != nil && it.open {
		switch e.Op {
		case "get", "children", "exists":
			it.reads = append(it.reads, zkRead{e.T, e.Seq, rel, e.Data, e.Err, e.Op})
		case "create", "set", "delete":
			it.zkWrites = append(it.zkWrites, e)
		}
	}
	for _, o := range m.oracles {
		o.onZK(e)
	}
}

func (m *Monitors) onSQL(ev *SQLEvent) {
	if m.recent == nil {
		m.recent = map[string][]*SQLEvent{}
	}
	r := append(m.recent[ev.Src], ev)
	if len(r) > 96 {
		r = r[len(r)-64:]
	}
	m.recent[ev.Src] = r
	if ev.It != nil {
		ev.It.sql = append(ev.It.sql, ev)
	}
	if ev.Applied && ev.Query == "SET GLOBAL read_only = 0" && m.isDaemon(ev.Src) && ev.Dst != m.master {
		m.promotions = append(m.promotions, promotion{ev.Seq, ev.T, ev.Src, ev.Dst})
		m.probe("promotion_event")
	}
	for _, o := range m.oracles {
		o.onSQL(ev)
	}
}

func (m *Monitors) onIterEnter(d *Daemon, state string) {
	it := &iterRec{inc: d.inc, state: state, n: d.iterN, startSeq: m.s.evSeq, startT: m.s.now(), open: true}
	it.ownedLock = m.lockOwner == d.inc
	m.iters[d.inc] = it
	m.allIter = append(m.allIter, it)
	if ca := m.s.spec.CrashAt; ca != nil && ca.ArmAfterMs > 0 && state == "Manager" && m.s.crashInc == "" && !m.s.crashDone && m.s.now() >= ms(ca.ArmAfterMs) && m.lockOwner == d.inc {
		m.s.crashInc = d.inc
		m.s.crashCount = 0
	}
	for _, o := range m.oracles {
		o.onIterEnter(it)
	}
}

func (m *Monitors) onIterLeave(d *Daemon, state, next string) {
	it := m.iters[d.inc]
	if it == nil {
		return
	}
	it.open = false
	it.next = next
	it.endSeq = m.s.evSeq
	it.endT = m.s.now()
	// interleaving signature: sequence of (call kind) within a manager iteration
	if state == "Manager" {
		var b strings.Builder
		for _, e := range it.sql {
			if e.Mutating {
				b.WriteString(e.Dst + ":" + e.Kind + ";")
			}
		}
		for _, w := range it.zkWrites {
			b.WriteString("zk:" + w.Op + ":" + w.Path + ";")
		}
		if b.Len() > 0 {
			m.interleave[fmt.Sprintf("%x", hashStr(b.String()))] = true
		}
	}
	for _, o := range m.oracles {
		o.onIterLeave(it)
	}
	m.sampleState()
	// free memory of old iterations' detail
	if len(m.allIter) > 64 {
		old := m.allIter[len(m.allIter)-64]
		if !old.open {
			old.reads, old.sql, old.zkWrites = nil, nil, nil
		}
	}
}

func (m *Monitors) onFault(key, f string) {
	m.faultsTotal++
	m.lastFaultT = m.s.now()
	for _, it := range m.iters {
		if it.open {
			it.faults++
		}
	}
}

func (m *Monitors) onZKCall(owner, key string) {
	if m.s.spec.Pilot {
		m.s.pilotCall(owner, key)
	}
}

func (m *Monitors) touch(src string, sv *Server) {
	if !sv.Registered && m.isDaemon(src) {
		m.violate("C10", "decoy", "statement-to-unregistered-host", fmt.Sprintf("%s sent a statement to unregistered host %s", src, sv.Name))
	}
}

func (m *Monitors) onDaemonStart(d *Daemon) {}

// onDisk: ground truth of a host's disk usage changed (pct < 0: cannot be measured)
func (m *Monitors) onDisk(host string, pct int) {
	if m.diskHist == nil {
		m.diskHist = map[string][]lagSample{}
	}
	m.diskHist[host] = append(m.diskHist[host], lagSample{t: m.s.now(), lag: float64(pct), ok: pct >= 0})
}

type daemonGoneOracle interface{ onDaemonGone(inc string) }

func (m *Monitors) onDaemonKill(d *Daemon) {
	for _, o := range m.oracles {
		if x, ok := o.(daemonGoneOracle); ok {
			x.onDaemonGone(d.inc)
		}
	}
	if it := m.iters[d.inc]; it != nil && it.open {
		it.open = false
		it.next = "<killed>"
		it.endSeq = m.s.evSeq
		it.endT = m.s.now()
		for _, o := range m.oracles {
			o.onIterLeave(it)
		}
	}
}
func (m *Monitors) onDaemonExit(d *Daemon, code int) {
	if d.ctx.Err() == nil {
		m.violate("C20", "exit", "daemon-exited-unasked", fmt.Sprintf("%s Run() returned %d without being stopped", d.inc, code))
	}
}

func (m *Monitors) onCommitResult(client string, sv *Server, g GTID, outcome string) {
	if outcome == "refused" {
		return
	}
	a := ackRec{g: g, server: sv.Name, client: client, tDone: m.s.now(), outcome: outcome}
	m.acks = append(m.acks, a)
	m.s.trace("ACK %s %s %s -> %s", client, sv.Name, g, outcome)
	if outcome == "acked" {
		for _, o := range m.oracles {
			o.onAck(&a)
		}
		m.acked.Add(g)
	}
}

func (m *Monitors) afterEvent() {
	m.s.drainHooks()
	m.s.drainExits()
	for _, o := range m.oracles {
		o.afterEvent()
	}
}

func (m *Monitors) atEnd() {
	// a run that was cut short by a violation has no end state to judge
	if m.s.stopWhy == "violation" {
		return
	}
	for _, o := range m.oracles {
		o.atEnd()
	}
}

// ---------------------------------------------------------------- abstract state sampling (coverage measure)

func (m *Monitors) abstractState() string { return m.abstractStateX(true) }

// stabilitySig: the abstract state without the volatile GTID relation (which flips between
// "eq" and "behind" with every client write) - used to decide whether the system still moves
func (m *Monitors) stabilitySig() string { return m.abstractStateX(false) }

func (m *Monitors) abstractStateX(withRel bool) string {
	s := m.s
	var b strings.Builder
	mst := s.mysql.servers[m.master]
	for _, sv := range s.mysql.sorted() {
		rel := "-"
		if mst != nil && sv != mst {
			a, c := sv.Executed.SubsetOf(mst.Executed), mst.Executed.SubsetOf(sv.Executed)
			switch {
			case a && c:
				rel = "eq"
			case a:
				rel = "behind"
			case c:
				rel = "ahead"
			default:
				rel = "div"
			}
		}
		if !withRel {
			rel = ""
		}
		fmt.Fprintf(&b, "%s:up=%v,ro=%v,off=%v,ssm=%v,sss=%v,ch=%v,src=%s,io=%v,sql=%v,rel=%s;", sv.Name, sv.Up, sv.ReadOnly, sv.Offline, sv.SSMaster, sv.SSSlave, sv.HasChannel, sv.Source, sv.IORun && !sv.IOConnecting, sv.SQLRun, rel)
	}
	sw := "none"
	if m.switchRaw != "" {
		sw = "pending"
		if strings.Contains(m.switchRaw, `"started_by":"h`) {
			sw = "started"
		}
	}
	mt := "none"
	if m.maintRaw != "" {
		mt = "req"
		if strings.Contains(m.maintRaw, `"mysync_paused":true`) {
			mt = "on"
		}
	}
	var rec []string
	for h := range m.recovery {
		rec = append(rec, h)
	}
	sort.Strings(rec)
	fmt.Fprintf(&b, "zk:master=%s,active=%v,switch=%s,maint=%s,rec=%v;", m.master, m.active, sw, mt, rec)
	hosts := make([]string, 0)
	for h := range s.liveByHost {
		hosts = append(hosts, h)
	}
	sort.Strings(hosts)
	for _, h := range hosts {
		fmt.Fprintf(&b, "%s=%s;", h, s.liveByHost[h].state)
	}
	return b.String()
}

func (m *Monitors) sampleState() {
	st := fmt.Sprintf("%x", hashStr(m.abstractState()))
	if !m.states[st] {
		m.states[st] = true
	}
	if m.lastState != "" && m.lastState != st {
		m.transitions[m.lastState+">"+st] = true
	}
	if m.lastState != st {
		m.traj = mix64(m.traj ^ hashStr(st))
	}
	m.lastState = st
}
