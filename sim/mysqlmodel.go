package verifsim

// fakemysql: a model of K MySQL servers with GTID auto-position replication and the semi-sync
// plugin (AFTER_SYNC, infinite timeout, wait_no_slave=ON). Design rule: never more hostile than
// MySQL - where real behaviour is uncertain the model picks the alternative that makes a
// violation *less* likely to be reported.

import (
	"fmt"
	"regexp"
	"sort"
	"strconv"
	"strings"
	"time"
)

type Txn struct {
	G      GTID
	Size   int64
	At     time.Duration // origin commit time (sim time)
	Client string
}

type waiter struct {
	txn    Txn
	client string
	sessID int
	killed bool
	done   func(outcome string)
}

type roWait struct {
	c        *call
	super    bool
	deadline time.Duration
	ev       *event
}

type Server struct {
	Name, UUID string
	Registered bool
	Up         bool
	Epoch      int64
	StartedAt  time.Duration

	ReadOnly, SuperRO, Offline bool
	SSMaster, SSSlave          bool
	WaitCount                  int
	FlushLog, SyncBinlog       int
	NoSemiSyncPlugin           bool

	Binlog    []Txn
	BinlogSet GTIDSet
	Executed  GTIDSet // visible @@gtid_executed

	HasChannel   bool
	Source       string
	IORun        bool
	SQLRun       bool
	IOConnecting bool
	SSSlaveEff   bool
	Relay        []Txn
	Retrieved    GTIDSet
	LastIOErrno  int
	LastSQLErrno int
	LastError    string
	LastIOError  string
	fetchIdx     int
	fetchSrcEp   int64
	StickySQLErr int
	StickyIOErr  int
	ApplyDelay   time.Duration // per transaction
	applyBusyTil time.Duration
	FetchBytes   int64 // max bytes per replication tick (0 = unlimited)
	LagNullOnce  bool

	waiters    []*waiter
	pendingRO  []*roWait
	Blockers   []int // application sessions holding locks that block SET GLOBAL read_only (LOCK TABLES, long DDL)
	lockWait   map[int64]int
	sessSeq    int
	events     []slaveEvent
	replMonTS  time.Duration
	hasReplMon bool
	conns      map[int64]bool

	DiskPct int
	FSRO    bool

	lastWorldChange time.Duration // last scenario-driven change of this server (not by mysync)
	LagOverride     *float64      // scripted answer of the custom replication_lag query
	LagNull         bool          // the custom replication_lag query answers NULL
}

type slaveEvent struct{ schema, name, definer string }

type World struct {
	s                 *Sim
	servers           map[string]*Server
	version           [3]int
	unknown           map[string]int
	binlogTxnsPerFile int
}

func newWorld(s *Sim) *World {
	return &World{s: s, servers: map[string]*Server{}, version: [3]int{8, 0, 32}, unknown: map[string]int{}, binlogTxnsPerFile: 50}
}

func (w *World) sorted() []*Server {
	names := make([]string, 0, len(w.servers))
	for n := range w.servers {
		names = append(names, n)
	}
	sort.Strings(names)
	r := make([]*Server, len(names))
	for i, n := range names {
		r[i] = w.servers[n]
	}
	return r
}

func (w *World) addServer(name, uuid string, registered bool) *Server {
	sv := &Server{Name: name, UUID: uuid, Registered: registered, Up: true, Epoch: 1,
		ReadOnly: true, SuperRO: true, WaitCount: 1, FlushLog: 1, SyncBinlog: 1,
		BinlogSet: GTIDSet{}, Executed: GTIDSet{}, Retrieved: GTIDSet{}, lockWait: map[int64]int{}, conns: map[int64]bool{}}
	w.servers[name] = sv
	return sv
}

// Holds = everything the server has in any form (oracle view): binlog ∪ visible ∪ retrieved
func (sv *Server) Holds() GTIDSet {
	r := sv.Executed.Clone()
	r.AddSet(sv.BinlogSet)
	r.AddSet(sv.Retrieved)
	return r
}

func (sv *Server) IsMasterRole() bool { return !sv.HasChannel }

func (sv *Server) nextSeq() int64 {
	var mx int64
	for _, iv := range sv.BinlogSet[sv.UUID] {
		if iv.hi > mx {
			mx = iv.hi
		}
	}
	for _, iv := range sv.Executed[sv.UUID] {
		if iv.hi > mx {
			mx = iv.hi
		}
	}
	return mx + 1
}

func (sv *Server) appendBinlog(t Txn) {
	sv.Binlog = append(sv.Binlog, t)
	sv.BinlogSet.Add(t.G)
}

// ---------------------------------------------------------------- client commits

// commit attempts a client write on sv. done is called exactly once with
// "acked" | "refused" | "unknown".
func (w *World) commit(sv *Server, client string, size int64, done func(outcome string, g GTID)) {
	s := w.s
	if !sv.Up || sv.ReadOnly || sv.Offline {
		done("refused", GTID{})
		return
	}
	g := GTID{sv.UUID, sv.nextSeq()}
	t := Txn{G: g, Size: size, At: s.now(), Client: client}
	sv.appendBinlog(t)
	s.trace("COMMIT %s %s by %s", sv.Name, g, client)
	if sv.SSMaster && sv.WaitCount > 0 {
		sv.sessSeq++
		wt := &waiter{txn: t, client: client, sessID: 1000 + sv.sessSeq}
		wt.done = func(o string) { done(o, g) }
		sv.waiters = append(sv.waiters, wt)
		s.stats.Probes["commit_waited_for_ack"]++
		w.evalAcks(sv)
		return
	}
	sv.Executed.Add(g)
	done("acked", g)
}

func (w *World) ackersFor(sv *Server, g GTID) int {
	n := 0
	for _, r := range w.sorted() {
		if r == sv || !r.Up || !r.HasChannel || r.Source != sv.Name {
			continue
		}
		if !r.IORun || r.IOConnecting || !r.SSSlaveEff {
			continue
		}
		if w.s.net.blocked(r.Name, sv.Name) {
			continue
		}
		if r.Retrieved.Has(g) || r.Executed.Has(g) {
			n++
		}
	}
	return n
}

func (w *World) evalAcks(sv *Server) {
	if !sv.Up {
		return
	}
	for len(sv.waiters) > 0 {
		wt := sv.waiters[0]
		if sv.SSMaster && sv.WaitCount > 0 && w.ackersFor(sv, wt.txn.G) < sv.WaitCount {
			break
		}
		sv.waiters = sv.waiters[1:]
		sv.Executed.Add(wt.txn.G)
		if wt.killed {
			wt.done("unknown")
		} else {
			wt.done("acked")
		}
	}
	if len(sv.waiters) == 0 && len(sv.Blockers) == 0 {
		w.releaseRO(sv)
	}
}

func (w *World) releaseRO(sv *Server) {
	ps := sv.pendingRO
	sv.pendingRO = nil
	for _, p := range ps {
		if p.ev != nil {
			p.ev.run = func() {}
		}
		w.applySetRO(sv, p.super)
		if p.c.ev != nil {
			p.c.ev.Err = ""
			p.c.ev.After = sv.stateSig()
			p.c.ev.Effective = p.c.ev.Before != p.c.ev.After
			if p.c.ctx != nil && p.c.ctx.Err() != nil {
				p.c.ev.CallerGone = true
			}
		}
		w.s.finishSQL(p.c, sqlResult{}, true)
	}
}

func (w *World) applySetRO(sv *Server, super bool) {
	sv.ReadOnly = true
	sv.SuperRO = super
}

// ---------------------------------------------------------------- replication dynamics

func (w *World) replTick() {
	s := w.s
	for _, r := range w.sorted() {
		if !r.Up || !r.HasChannel {
			continue
		}
		// IO thread
		if r.IORun {
			src := w.servers[r.Source]
			if r.StickyIOErr != 0 {
				r.IORun = false
				r.IOConnecting = false
				r.LastIOErrno = r.StickyIOErr
				r.LastIOError = fmt.Sprintf("Got fatal error %d from source", r.StickyIOErr)
			} else if src == nil || !src.Up || s.net.blocked(r.Name, r.Source) || r.Source == r.Name {
				r.IOConnecting = true
				r.LastIOErrno = 2003
				r.LastIOError = "error connecting to source"
			} else {
				if r.IOConnecting {
					r.IOConnecting = false
					r.LastIOErrno = 0
					r.LastIOError = ""
				}
				if r.fetchSrcEp != src.Epoch {
					r.fetchSrcEp = src.Epoch
					r.fetchIdx = 0
				}
				if r.fetchIdx > len(src.Binlog) {
					r.fetchIdx = 0
				}
				var budget int64 = r.FetchBytes
				got := false
				for r.fetchIdx < len(src.Binlog) {
					t := src.Binlog[r.fetchIdx]
					if r.Executed.Has(t.G) || r.Retrieved.Has(t.G) {
						r.fetchIdx++
						continue
					}
					if r.FetchBytes > 0 {
						if budget <= 0 {
							break
						}
						budget -= t.Size
					}
					r.Relay = append(r.Relay, t)
					r.Retrieved.Add(t.G)
					r.fetchIdx++
					got = true
					s.trace("FETCH %s <- %s %s", r.Name, src.Name, t.G)
				}
				if got {
					w.evalAcks(src)
				}
			}
		}
		// SQL thread
		if r.SQLRun {
			if r.StickySQLErr != 0 && len(r.Relay) > 0 {
				r.SQLRun = false
				r.LastSQLErrno = r.StickySQLErr
				r.LastError = fmt.Sprintf("Error %d applying event", r.StickySQLErr)
				continue
			}
			for len(r.Relay) > 0 {
				if r.ApplyDelay > 0 && s.now() < r.applyBusyTil {
					break
				}
				t := r.Relay[0]
				r.Relay = r.Relay[1:]
				if !r.Executed.Has(t.G) {
					r.Executed.Add(t.G)
					r.appendBinlog(t)
					s.trace("APPLY %s %s", r.Name, t.G)
				}
				if r.ApplyDelay > 0 {
					r.applyBusyTil = s.now() + r.ApplyDelay
				}
			}
		}
	}
	// acks may also become possible because flags changed
	for _, sv := range w.sorted() {
		if len(sv.waiters) > 0 {
			w.evalAcks(sv)
		}
	}
}

func (r *Server) lagSeconds(now time.Duration) any {
	if !r.IORun || !r.SQLRun || r.IOConnecting {
		return nil
	}
	if len(r.Relay) == 0 {
		return float64(0)
	}
	d := now - r.Relay[0].At
	return float64(int64(d / time.Second))
}

// ---------------------------------------------------------------- crash / restart

func (w *World) crashServer(sv *Server, lossy int) {
	s := w.s
	if !sv.Up {
		return
	}
	sv.Up = false
	sv.lastWorldChange = s.now()
	s.trace("MYSQL-CRASH %s lossy=%d", sv.Name, lossy)
	for _, wt := range sv.waiters {
		wt.done("unknown")
	}
	sv.waiters = nil
	sv.Blockers = nil
	for _, p := range sv.pendingRO {
		if p.ev != nil {
			p.ev.run = func() {}
		}
		if p.c.ev != nil {
			p.c.ev.Err = "invalid connection"
			p.c.ev.Applied = false
		}
		s.finishSQL(p.c, sqlResult{err: errInvalidConn}, false)
	}
	sv.pendingRO = nil
	// durability: with relaxed settings a suffix of the latest transactions may be lost
	if lossy > 0 && (sv.SyncBinlog != 1 || sv.FlushLog != 1) {
		for i := 0; i < lossy && len(sv.Binlog) > 0; i++ {
			t := sv.Binlog[len(sv.Binlog)-1]
			sv.Binlog = sv.Binlog[:len(sv.Binlog)-1]
			sv.BinlogSet.Remove(t.G)
			sv.Executed.Remove(t.G)
			s.trace("MYSQL-LOST-TXN %s %s", sv.Name, t.G)
			s.stats.Probes["lossy_crash_lost_txn"]++
		}
	}
	sv.Relay = nil
	sv.Retrieved = GTIDSet{}
}

func (w *World) startServer(sv *Server) {
	s := w.s
	if sv.Up {
		return
	}
	sv.Up = true
	sv.lastWorldChange = s.now() // a (re)start is the scenario's doing, whenever it was scheduled
	sv.Epoch++
	sv.StartedAt = s.now()
	sv.ReadOnly, sv.SuperRO, sv.Offline = true, true, true
	sv.SSMaster, sv.SSSlave, sv.SSSlaveEff = false, false, false
	sv.WaitCount = 1
	sv.FlushLog, sv.SyncBinlog = 1, 1
	sv.Executed = sv.BinlogSet.Clone()
	sv.lockWait = map[int64]int{}
	sv.conns = map[int64]bool{}
	if sv.HasChannel {
		sv.IORun, sv.SQLRun = true, true
		sv.IOConnecting = false
		sv.LastIOErrno, sv.LastSQLErrno = 0, 0
		sv.LastError, sv.LastIOError = "", ""
		sv.fetchIdx = 0
	}
	s.trace("MYSQL-START %s", sv.Name)
}

// ---------------------------------------------------------------- statements

var changeHostRe = regexp.MustCompile(`(?:MASTER_HOST|SOURCE_HOST) = '([^']*)'`)
var setIntRe = regexp.MustCompile(`= '?(-?\d+)'?$`)

func yn(b bool) string {
	if b {
		return "Yes"
	}
	return "No"
}
func b2i(b bool) int64 {
	if b {
		return 1
	}
	return 0
}
func one(cols []string, vals ...any) sqlResult { return sqlResult{cols: cols, rows: [][]any{vals}} }

func isMutating(q string) bool {
	switch {
	case strings.HasPrefix(q, "SET GLOBAL"), strings.HasPrefix(q, "STOP "), strings.HasPrefix(q, "START "),
		strings.HasPrefix(q, "RESET "), strings.HasPrefix(q, "CHANGE "), strings.HasPrefix(q, "KILL "),
		strings.HasPrefix(q, "ALTER "):
		return true
	}
	return false
}

// stateSig is a compact signature of the server state a mutating statement can change.
func (sv *Server) stateSig() string {
	return fmt.Sprintf("ro=%v sro=%v off=%v ssm=%v sss=%v wc=%d ch=%v src=%s io=%v sql=%v fl=%d sb=%d ev=%d",
		sv.ReadOnly, sv.SuperRO, sv.Offline, sv.SSMaster, sv.SSSlave, sv.WaitCount, sv.HasChannel, sv.Source, sv.IORun, sv.SQLRun, sv.FlushLog, sv.SyncBinlog, len(sv.events))
}

// exec applies one statement. deferred=true means the reply will be produced later (blocked
// SET read_only); the caller must not answer.
func (w *World) exec(sv *Server, c *call) (res sqlResult, deferred bool) {
	s := w.s
	q := c.query
	replWord := func(a, b string) bool { return strings.HasPrefix(q, a) || strings.HasPrefix(q, b) }
	switch {
	case q == "SELECT 1 AS Ok":
		return one([]string{"Ok"}, int64(1)), false
	case strings.HasPrefix(q, "SELECT sys.version_major()"):
		return one([]string{"MajorVersion", "MinorVersion", "PatchVersion"}, int64(w.version[0]), int64(w.version[1]), int64(w.version[2])), false
	case replWord("SHOW SLAVE STATUS FOR CHANNEL", "SHOW REPLICA STATUS FOR CHANNEL"):
		if !strings.HasSuffix(q, "FOR CHANNEL ''") {
			return sqlResult{err: myErr(3074, "Replica channel does not exist.")}, false
		}
		newSyntax := strings.HasPrefix(q, "SHOW REPLICA")
		cols := []string{"Master_Host", "Master_Port", "Master_Log_File", "Read_Master_Log_Pos", "Slave_IO_Running", "Slave_SQL_Running", "Last_Error", "Retrieved_Gtid_Set", "Executed_Gtid_Set", "Last_IO_Errno", "Last_IO_Error", "Last_SQL_Errno", "Seconds_Behind_Master"}
		if newSyntax {
			cols = []string{"Source_Host", "Source_Port", "Source_Log_File", "Read_Source_Log_Pos", "Replica_IO_Running", "Replica_SQL_Running", "Last_Error", "Retrieved_Gtid_Set", "Executed_Gtid_Set", "Last_IO_Errno", "Last_IO_Error", "Last_SQL_Errno", "Seconds_Behind_Source"}
		}
		if !sv.HasChannel {
			return sqlResult{cols: cols}, false
		}
		ioState := yn(sv.IORun)
		if sv.IORun && sv.IOConnecting {
			ioState = "Connecting"
		}
		file, pos := w.binlogPos(sv)
		lag := sv.lagSeconds(s.now())
		if sv.LagNullOnce {
			sv.LagNullOnce = false
			lag = nil
		}
		return one(cols, sv.Source, int64(3306), file, pos, ioState, yn(sv.SQLRun), sv.LastError, sv.Retrieved.String(), sv.Executed.String(),
			int64(sv.LastIOErrno), sv.LastIOError, int64(sv.LastSQLErrno), lag), false
	case strings.HasPrefix(q, "SELECT verif_lag AS Seconds_Behind_Master"):
		if !sv.HasChannel {
			return sqlResult{cols: []string{"Seconds_Behind_Master"}}, false
		}
		if sv.LagNull {
			return one([]string{"Seconds_Behind_Master"}, nil), false
		}
		if sv.LagOverride != nil {
			return one([]string{"Seconds_Behind_Master"}, *sv.LagOverride), false
		}
		return one([]string{"Seconds_Behind_Master"}, sv.lagSeconds(s.now())), false
	case strings.HasPrefix(q, "SELECT @@GLOBAL.gtid_executed"):
		return one([]string{"Executed_Gtid_Set"}, sv.Executed.String()), false
	case strings.HasPrefix(q, "SELECT @@server_uuid"):
		return one([]string{"server_uuid"}, sv.UUID), false
	case strings.HasPrefix(q, "SELECT @@read_only"):
		return one([]string{"ReadOnly", "SuperReadOnly"}, b2i(sv.ReadOnly), b2i(sv.SuperRO)), false
	case strings.HasPrefix(q, "SELECT @@GLOBAL.offline_mode"):
		return one([]string{"OfflineMode"}, b2i(sv.Offline)), false
	case strings.HasPrefix(q, "SELECT @@GLOBAL.innodb_flush_log_at_trx_commit"):
		return one([]string{"InnodbFlushLogAtTrxCommit", "SyncBinlog"}, int64(sv.FlushLog), int64(sv.SyncBinlog)), false
	case strings.HasPrefix(q, "SELECT @@rpl_semi_sync_master_enabled"):
		if sv.NoSemiSyncPlugin {
			return sqlResult{err: myErr(1193, "Unknown system variable 'rpl_semi_sync_master_enabled'")}, false
		}
		return one([]string{"MasterEnabled", "SlaveEnabled", "WaitSlaveCount"}, b2i(sv.SSMaster), b2i(sv.SSSlave), int64(sv.WaitCount)), false
	case strings.HasPrefix(q, "SHOW BINARY LOGS"):
		res := sqlResult{cols: []string{"Log_name", "File_size"}}
		for _, f := range w.binlogFiles(sv) {
			res.rows = append(res.rows, []any{f.name, f.size})
		}
		return res, false
	case strings.HasPrefix(q, "SELECT EVENT_SCHEMA"):
		res := sqlResult{cols: []string{"EVENT_SCHEMA", "EVENT_NAME", "DEFINER"}}
		for _, e := range sv.events {
			res.rows = append(res.rows, []any{e.schema, e.name, e.definer})
		}
		return res, false
	case strings.HasPrefix(q, "ALTER DEFINER"):
		if len(sv.events) > 0 {
			sv.events = sv.events[1:]
		}
		return sqlResult{}, false
	case strings.HasPrefix(q, "SET SESSION lock_wait_timeout"):
		if len(c.args) > 0 {
			if v, ok := c.args[0].(int64); ok {
				sv.lockWait[c.connID] = int(v)
			}
		}
		return sqlResult{}, false
	case q == "SET GLOBAL super_read_only = 1", q == "SET GLOBAL read_only = 1, super_read_only = 0":
		super := q == "SET GLOBAL super_read_only = 1"
		if len(sv.waiters) > 0 || len(sv.Blockers) > 0 {
			lw := sv.lockWait[c.connID]
			if lw < 1 {
				lw = 1
			}
			p := &roWait{c: c, super: super, deadline: s.now() + time.Duration(lw)*time.Second}
			p.ev = s.after(time.Duration(lw)*time.Second, "ro-lockwait", func() {
				for i, x := range sv.pendingRO {
					if x == p {
						sv.pendingRO = append(sv.pendingRO[:i], sv.pendingRO[i+1:]...)
						s.stats.Probes["set_ro_lock_wait_timeout"]++
						if c.ev != nil {
							c.ev.Err = "Error 1205: Lock wait timeout exceeded"
							c.ev.Applied = false
						}
						s.finishSQL(c, sqlResult{err: myErr(1205, "Lock wait timeout exceeded; try restarting transaction")}, false)
						return
					}
				}
			})
			sv.pendingRO = append(sv.pendingRO, p)
			return sqlResult{}, true
		}
		w.applySetRO(sv, super)
		return sqlResult{}, false
	case q == "SET GLOBAL read_only = 0":
		sv.ReadOnly, sv.SuperRO = false, false
		return sqlResult{}, false
	case q == "SET GLOBAL offline_mode = OFF":
		sv.Offline = false
		return sqlResult{}, false
	case q == "SET GLOBAL offline_mode = ON":
		sv.Offline = true
		for _, wt := range sv.waiters {
			wt.killed = true
		}
		return sqlResult{}, false
	case strings.HasPrefix(q, "SET GLOBAL rpl_semi_sync_"):
		if sv.NoSemiSyncPlugin {
			return sqlResult{err: myErr(1193, "Unknown system variable")}, false
		}
		switch q {
		case "SET GLOBAL rpl_semi_sync_master_enabled = 1, rpl_semi_sync_slave_enabled = 0":
			sv.SSMaster, sv.SSSlave = true, false
		case "SET GLOBAL rpl_semi_sync_slave_enabled = 1, rpl_semi_sync_master_enabled = 0":
			sv.SSMaster, sv.SSSlave = false, true
		case "SET GLOBAL rpl_semi_sync_slave_enabled = 0, rpl_semi_sync_master_enabled = 0":
			sv.SSMaster, sv.SSSlave = false, false
		default:
			if strings.HasPrefix(q, "SET GLOBAL rpl_semi_sync_master_wait_for_slave_count") {
				if len(c.args) > 0 {
					switch v := c.args[0].(type) {
					case int64:
						sv.WaitCount = int(v)
					case int:
						sv.WaitCount = v
					}
				} else if m := setIntRe.FindStringSubmatch(q); m != nil {
					sv.WaitCount, _ = strconv.Atoi(m[1])
				}
			} else {
				return w.unknownStmt(q), false
			}
		}
		w.evalAcks(sv)
		return sqlResult{}, false
	case replWord("STOP SLAVE IO_THREAD", "STOP REPLICA IO_THREAD"):
		sv.IORun, sv.IOConnecting = false, false
		return sqlResult{}, false
	case replWord("START SLAVE IO_THREAD", "START REPLICA IO_THREAD"):
		if !sv.HasChannel {
			return sqlResult{err: myErr(1200, "The server is not configured as replica")}, false
		}
		w.startIO(sv)
		return sqlResult{}, false
	case replWord("STOP SLAVE SQL_THREAD", "STOP REPLICA SQL_THREAD"):
		sv.SQLRun = false
		return sqlResult{}, false
	case replWord("START SLAVE SQL_THREAD", "START REPLICA SQL_THREAD"):
		if !sv.HasChannel {
			return sqlResult{err: myErr(1200, "The server is not configured as replica")}, false
		}
		w.startSQL(sv)
		return sqlResult{}, false
	case replWord("STOP SLAVE FOR CHANNEL", "STOP REPLICA FOR CHANNEL"):
		sv.IORun, sv.SQLRun, sv.IOConnecting = false, false, false
		return sqlResult{}, false
	case replWord("START SLAVE FOR CHANNEL", "START REPLICA FOR CHANNEL"):
		if !sv.HasChannel {
			return sqlResult{err: myErr(1200, "The server is not configured as replica")}, false
		}
		w.startIO(sv)
		w.startSQL(sv)
		return sqlResult{}, false
	case replWord("RESET SLAVE ALL", "RESET REPLICA ALL"):
		if sv.IORun || sv.SQLRun {
			return sqlResult{err: myErr(3081, "This operation cannot be performed with running replication threads")}, false
		}
		sv.HasChannel, sv.Source = false, ""
		sv.Relay, sv.Retrieved = nil, GTIDSet{}
		sv.LastIOErrno, sv.LastSQLErrno, sv.LastError, sv.LastIOError = 0, 0, "", ""
		sv.SSSlaveEff = false
		return sqlResult{}, false
	case strings.HasPrefix(q, "CHANGE MASTER TO"), strings.HasPrefix(q, "CHANGE REPLICATION SOURCE TO"):
		if !strings.HasSuffix(q, "FOR CHANNEL ''") {
			return sqlResult{err: myErr(3074, "Replica channel does not exist.")}, false
		}
		if sv.IORun || sv.SQLRun {
			return sqlResult{err: myErr(3021, "This operation cannot be performed with a running replica io thread")}, false
		}
		m := changeHostRe.FindStringSubmatch(q)
		if m == nil {
			return w.unknownStmt(q), false
		}
		sv.HasChannel, sv.Source = true, m[1]
		sv.Relay, sv.Retrieved = nil, GTIDSet{}
		sv.fetchIdx, sv.fetchSrcEp = 0, 0
		sv.LastIOErrno, sv.LastSQLErrno, sv.LastError, sv.LastIOError = 0, 0, "", ""
		sv.IOConnecting = false
		return sqlResult{}, false
	case strings.HasPrefix(q, "KILL "):
		idStr := strings.Trim(strings.TrimPrefix(q, "KILL "), "'")
		if len(c.args) > 0 {
			idStr = fmt.Sprint(c.args[0])
		}
		id, _ := strconv.Atoi(idStr)
		for _, wt := range sv.waiters {
			if wt.sessID == id {
				wt.killed = true
			}
		}
		for i, b := range sv.Blockers {
			if b == id {
				sv.Blockers = append(sv.Blockers[:i], sv.Blockers[i+1:]...)
				s.stats.Probes["blocking_session_killed"]++
				break
			}
		}
		if len(sv.waiters) == 0 && len(sv.Blockers) == 0 {
			w.releaseRO(sv)
		}
		return sqlResult{}, false
	case strings.HasPrefix(q, "SELECT ID FROM information_schema.PROCESSLIST"):
		res := sqlResult{cols: []string{"ID"}}
		for _, b := range sv.Blockers {
			res.rows = append(res.rows, []any{int64(b)})
		}
		for _, wt := range sv.waiters {
			if !wt.killed {
				res.rows = append(res.rows, []any{int64(wt.sessID)})
			}
		}
		return res, false
	case strings.HasPrefix(q, "SELECT count(*) <> 0 AS IsWaiting"):
		return one([]string{"IsWaiting"}, b2i(len(sv.waiters) > 0)), false
	case strings.HasPrefix(q, "SELECT UNIX_TIMESTAMP(DATE_SUB(now()"):
		return one([]string{"LastStartup"}, float64(s.t0.Add(sv.StartedAt).Unix())), false
	case strings.HasPrefix(q, "SET GLOBAL innodb_flush_log_at_trx_commit"):
		sv.FlushLog = argInt(c, q, sv.FlushLog)
		return sqlResult{}, false
	case strings.HasPrefix(q, "SET GLOBAL sync_binlog"):
		sv.SyncBinlog = argInt(c, q, sv.SyncBinlog)
		return sqlResult{}, false
	case strings.Contains(q, "mysql.replication_settings"), strings.Contains(q, "mysql.replication_sources"):
		return sqlResult{err: myErr(1146, "Table 'mysql.replication_settings' doesn't exist")}, false
	case strings.HasPrefix(q, "SELECT UNIX_TIMESTAMP(ts) AS ts FROM"):
		if !sv.hasReplMon {
			return sqlResult{err: myErr(1146, "Table 'mysql.mysync_repl_mon' doesn't exist")}, false
		}
		return one([]string{"ts"}, fmt.Sprintf("%.3f", float64(s.t0.Add(sv.replMonTS).UnixMilli())/1000)), false
	case strings.HasPrefix(q, "SELECT FLOOR(CAST("):
		if !sv.hasReplMon {
			return sqlResult{err: myErr(1146, "Table 'mysql.mysync_repl_mon' doesn't exist")}, false
		}
		m := regexp.MustCompile(`CAST\('([0-9.]+)'`).FindStringSubmatch(q)
		var ts float64
		if m != nil {
			ts, _ = strconv.ParseFloat(m[1], 64)
		}
		own := float64(s.t0.Add(sv.replMonTS).UnixMilli()) / 1000
		if sv.HasChannel {
			// a replica's copy of the timestamp row is as old as its applier is behind
			// (independent of the IO thread: the age of the oldest transaction not yet applied)
			if len(sv.Relay) == 0 {
				return one([]string{"delay"}, int64(0)), false
			}
			return one([]string{"delay"}, int64((s.now()-sv.Relay[0].At)/time.Second)), false
		}
		return one([]string{"delay"}, int64(ts-own)), false
	case strings.HasPrefix(q, "CREATE TABLE IF NOT EXISTS"):
		// (the DDL replicates: every server of the cluster has the table from now on)
		for _, x := range w.servers {
			x.hasReplMon = true
		}
		return sqlResult{}, false
	case strings.HasPrefix(q, "INSERT INTO"):
		if !sv.hasReplMon {
			return sqlResult{err: myErr(1146, "Table 'mysql.mysync_repl_mon' doesn't exist")}, false
		}
		if !sv.ReadOnly {
			sv.replMonTS = s.now()
		}
		return sqlResult{}, false
	}
	return w.unknownStmt(q), false
}

func argInt(c *call, q string, def int) int {
	if len(c.args) > 0 {
		switch v := c.args[0].(type) {
		case int64:
			return int(v)
		case int:
			return v
		}
	}
	if m := setIntRe.FindStringSubmatch(q); m != nil {
		n, _ := strconv.Atoi(m[1])
		return n
	}
	return def
}

func (w *World) unknownStmt(q string) sqlResult {
	w.unknown[q]++
	return sqlResult{err: myErr(1064, "You have an error in your SQL syntax near '"+q+"'")}
}

func (w *World) startIO(sv *Server) {
	if sv.IORun {
		return
	}
	sv.IORun = true
	sv.IOConnecting = false
	sv.SSSlaveEff = sv.SSSlave
	sv.LastIOErrno, sv.LastIOError = 0, ""
}

func (w *World) startSQL(sv *Server) {
	if sv.SQLRun {
		return
	}
	sv.SQLRun = true
	sv.LastSQLErrno, sv.LastError = 0, ""
}

type binlogFile struct {
	name string
	size int64
}

func (w *World) binlogFiles(sv *Server) []binlogFile {
	var res []binlogFile
	n := w.binlogTxnsPerFile
	for i := 0; i == 0 || i*n < len(sv.Binlog); i++ {
		var sz int64 = 4
		for j := i * n; j < (i+1)*n && j < len(sv.Binlog); j++ {
			sz += sv.Binlog[j].Size
		}
		res = append(res, binlogFile{fmt.Sprintf("mysql-bin.%06d", i+1), sz})
	}
	return res
}

// binlogPos: position of the replica's IO thread in its source's binlog.
func (w *World) binlogPos(r *Server) (string, int64) {
	src := w.servers[r.Source]
	if src == nil {
		return "", 0
	}
	idx := r.fetchIdx
	if idx > len(src.Binlog) {
		idx = len(src.Binlog)
	}
	// the position survives a restart or a reconnect (master info repository, auto-position): it
	// is where the first event the replica does not have yet begins
	for idx < len(src.Binlog) && (r.Executed.Has(src.Binlog[idx].G) || r.Retrieved.Has(src.Binlog[idx].G)) {
		idx++
	}
	n := w.binlogTxnsPerFile
	fi := idx / n
	if idx > 0 && idx%n == 0 && idx == len(src.Binlog) {
		fi = idx/n - 1
	}
	var pos int64 = 4
	for j := fi * n; j < idx; j++ {
		pos += src.Binlog[j].Size
	}
	return fmt.Sprintf("mysql-bin.%06d", fi+1), pos
}
