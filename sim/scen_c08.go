package verifsim

import "fmt"

// family lost (C08)
func genLost(r *rng, index int) *Spec {
	nHA := []int{1, 2, 3, 4, 3, 2}[index%6]
	sp := baseSpec(r, shapeOpt{minHA: nHA, maxHA: nHA, cascade: 0.3})
	c := &sp.Cfg
	c.SemiSync = (index/6)%2 == 0
	c.WaitSlaveCount = r.pickInt(1, 2)
	c.DisableSetROOnLost = index%11 == 10
	c.Failover = false
	c.InactivationDelayMs = int64(r.pickInt(3000, 8000))
	c.DBLostCheckTimeoutMs = int64(r.pickInt(1000, 2000))
	ha := sp.haNames()
	master := ha[0]
	T := int64(12000 + r.intn(3000))
	// how the coordination service is lost
	lossKind := []string{"zk_down_all", "zk_down_all", "cut_master", "cut_replica", "cut_all_hosts"}[r.intn(5)]
	long := int64(r.pickInt(25000, 45000))
	switch lossKind {
	case "zk_down_all":
		sp.Timeline = append(sp.Timeline, TLEvent{AtMs: T, Kind: "zk_down", DurMs: long, Fault: true})
	case "cut_master":
		sp.Timeline = append(sp.Timeline, TLEvent{AtMs: T, Kind: "cut", Host: master, Host2: "zk", Arg: r.pick("blackhole", "reject"), DurMs: long, Fault: true})
	case "cut_replica":
		sp.Timeline = append(sp.Timeline, TLEvent{AtMs: T, Kind: "cut", Host: ha[len(ha)-1], Host2: "zk", Arg: r.pick("blackhole", "reject"), DurMs: long, Fault: true})
	case "cut_all_hosts":
		for _, h := range sp.Hosts {
			sp.Timeline = append(sp.Timeline, TLEvent{AtMs: T + int64(r.intn(300)), Kind: "cut", Host: h.Name, Host2: "zk", Arg: "blackhole", DurMs: long, Fault: true})
		}
	}
	// per-replica conditions, applied shortly after the loss (nobody can repair them then)
	var conds []string
	for _, h := range ha[1:] {
		at := T + 300 + int64(r.intn(2500))
		cond := []string{"streaming", "streaming", "not_semi", "stopped", "own_master", "refusing", "timing_out", "io_stopped", "sql_stopped", "sql_error"}[r.intn(10)]
		conds = append(conds, h+"="+cond)
		switch cond {
		case "not_semi":
			sp.Timeline = append(sp.Timeline, TLEvent{AtMs: at, Kind: "sql", Host: h, Arg: "SET GLOBAL rpl_semi_sync_slave_enabled = 0, rpl_semi_sync_master_enabled = 0"})
			sp.Timeline = append(sp.Timeline, TLEvent{AtMs: at + 10, Kind: "sql", Host: h, Arg: "STOP SLAVE IO_THREAD FOR CHANNEL ''"})
			sp.Timeline = append(sp.Timeline, TLEvent{AtMs: at + 20, Kind: "sql", Host: h, Arg: "START SLAVE IO_THREAD FOR CHANNEL ''"})
		case "stopped":
			sp.Timeline = append(sp.Timeline, TLEvent{AtMs: at, Kind: "sql", Host: h, Arg: "STOP SLAVE FOR CHANNEL ''"})
		case "io_stopped":
			sp.Timeline = append(sp.Timeline, TLEvent{AtMs: at, Kind: "sql", Host: h, Arg: "STOP SLAVE IO_THREAD FOR CHANNEL ''"})
		case "sql_stopped":
			// still downloading, not applying
			sp.Timeline = append(sp.Timeline, TLEvent{AtMs: at, Kind: "sql", Host: h, Arg: "STOP SLAVE SQL_THREAD FOR CHANNEL ''"})
		case "sql_error":
			sp.Timeline = append(sp.Timeline, TLEvent{AtMs: at, Kind: "repl_error", Host: h, N: int64(r.pickInt(1062, 1032)), Arg: "sql"})
		case "own_master":
			sp.Timeline = append(sp.Timeline, TLEvent{AtMs: at, Kind: "sql", Host: h, Arg: "STOP SLAVE FOR CHANNEL ''"})
			sp.Timeline = append(sp.Timeline, TLEvent{AtMs: at + 10, Kind: "sql", Host: h, Arg: "RESET SLAVE ALL FOR CHANNEL ''"})
		case "refusing":
			sp.Timeline = append(sp.Timeline, TLEvent{AtMs: at, Kind: "kill_mysql", Host: h, Fault: true, DurMs: int64(r.pickInt(0, 15000))})
		case "timing_out":
			sp.Timeline = append(sp.Timeline, TLEvent{AtMs: at, Kind: "cut", Host: master, Host2: h, Arg: "blackhole", Fault: true, DurMs: int64(r.pickInt(2000, int(c.InactivationDelayMs/2), int(c.InactivationDelayMs+6000), 40000))})
		}
	}
	// outcome of the read-only attempt on the master
	ro := []string{"ok", "ok", "deadline", "error", "ok", "blocked_by_sessions", "blocked_by_sessions"}[r.intn(7)]
	switch ro {
	case "blocked_by_sessions":
		// application sessions hold locks: read-only times out (1205) until they are killed
		sp.Timeline = append(sp.Timeline, TLEvent{AtMs: T - 300, Kind: "lock_session", Host: master, N: int64(r.rangeInt(1, 3))})
	case "deadline":
		sp.StmtFail = append(sp.StmtFail, StmtFail{Host: master, Prefix: "SET GLOBAL super_read_only", Errno: 0, FromMs: T, ToMs: T + int64(r.pickInt(8000, 40000))})
	case "error":
		sp.StmtFail = append(sp.StmtFail, StmtFail{Host: master, Prefix: "SET GLOBAL super_read_only", Errno: 1105, FromMs: T, ToMs: T + int64(r.pickInt(8000, 40000))})
	}
	sp.World.ClientWriteMs = int64(r.pickInt(200, 500))
	sp.World.AutoResetupMs = 0
	sp.Variant = fmt.Sprintf("nHA=%d semi=%v w=%d disable=%v loss=%s ro=%s conds=%v", nHA, c.SemiSync, c.WaitSlaveCount, c.DisableSetROOnLost, lossKind, ro, conds)
	sp.DurationMs = T + long + 20000
	sp.Primary = []string{"C08"}
	return sp
}
