package verifsim

import (
	"database/sql/driver"
	"fmt"
	"net"
	"os"
	"strconv"
	"strings"
	"time"
)

type SQLEvent struct {
	Seq        uint64
	T          time.Duration
	Src        string
	Dst        string
	Kind       string
	Query      string
	Args       []any
	Err        string
	Mutating   bool
	Effective  bool // server state differed before/after
	Applied    bool // statement reached the server and was executed
	Before     string
	After      string
	Fault      string
	CallerGone bool          // the caller's context had already ended when the statement was delivered
	Issued     time.Duration // instant at which the caller issued the statement
	InSwitch   bool          // issued from inside the switchover procedure (not by a background check)
	Pending    bool          // marker of a delayed statement; Final is its outcome once delivered
	Final      *SQLEvent
	It         *iterRec // state-handler invocation of Src that was open when the statement was issued (nil: none)
	Aux        string   // for replica-status reads: what the server showed (role, threads)
	CleanWrt   []string // for replica-status reads: servers whose holdings contain this server's executed set, if it showed no replication error
}

// toldOK: the issuing process was told that the statement succeeded
func (e *SQLEvent) toldOK() bool {
	if e.Pending {
		return e.Final != nil && e.Final.toldOK()
	}
	return e.Applied && e.Err == "" && e.Fault != "lost" && !e.CallerGone
}

func srcHostOf(src string) string {
	x := src
	if i := strings.Index(x, ":"); i >= 0 {
		return x[:i] // "client:c1" -> client, "op:x" -> op
	}
	if i := strings.Index(x, "#"); i >= 0 {
		x = x[:i]
	}
	return x
}

func (s *Sim) srcAlive(src string) bool {
	if d, ok := s.daemons[src]; ok {
		return d.alive
	}
	return true
}

func (s *Sim) faultEligible(src string) bool {
	return !strings.HasPrefix(src, "client:") && !strings.HasPrefix(src, "op:")
}

var sqlErrnos = []int{1205, 1040, 1045, 2013, 1317, 1105}

func (s *Sim) ratesActive() bool {
	if s.spec.ExplicitOnly {
		return false
	}
	now := s.now()
	r := &s.spec.Rates
	return now >= ms(r.FromMs) && now < ms(r.ToMs)
}

func (s *Sim) decide(c *call) string {
	prevMut := ""
	if c.kind == callSQL && isMutating(c.query) && queryKind(c.query) != "set_lock_timeout" {
		if s.lastMut == nil {
			s.lastMut = map[string]string{}
		}
		k := c.src + ">" + c.dst
		prevMut = s.lastMut[k]
		s.lastMut[k] = c.query
	}
	if f, ok := s.explicit[c.key]; ok {
		return f
	}
	if c.kind == callSQL && s.faultEligible(c.src) {
		now := s.now()
		for i := range s.spec.StmtFail {
			sf := &s.spec.StmtFail[i]
			if sf.After != "" && (prevMut == "" || !strings.HasPrefix(prevMut, sf.After)) {
				continue
			}
			if sf.Host == c.dst && now >= ms(sf.FromMs) && now < ms(sf.ToMs) && strings.HasPrefix(c.query, sf.Prefix) {
				s.stmtFailHit = true
				if sf.Errno == 0 {
					return "hang"
				}
				return "err:" + strconv.Itoa(sf.Errno)
			}
		}
	}
	if !s.ratesActive() || !s.faultEligible(c.src) {
		return ""
	}
	r := &s.spec.Rates
	if r.OnlyMutating && !isMutating(c.query) {
		return ""
	}
	if c.kind == callZKDial {
		return ""
	}
	if queryKind(c.query) == "set_lock_timeout" {
		return ""
	}
	x := s.frac("flt", c.key)
	switch {
	case x < r.SQLErr:
		n := sqlErrnos[s.h("errno", c.key)%uint64(len(sqlErrnos))]
		return "err:" + strconv.Itoa(n)
	case x < r.SQLErr+r.SQLLost:
		return "lost"
	case x < r.SQLErr+r.SQLLost+r.SQLHang:
		return "hang"
	case x < r.SQLErr+r.SQLLost+r.SQLHang+r.SQLSlow:
		d := []int{20, 200, 1200, 3500}[s.h("slow", c.key)%4]
		return "slow:" + strconv.Itoa(d)
	}
	return ""
}

func (s *Sim) noteFault(key, f string) {
	kind := f
	if i := strings.Index(kind, ":"); i >= 0 && !strings.HasPrefix(kind, "zk:") {
		kind = kind[:i]
	}
	if strings.HasPrefix(kind, "zk:slow") {
		kind = "zk:slow"
	}
	if strings.HasPrefix(kind, "slow") {
		kind = "sql_slow"
	}
	switch kind {
	case "err":
		kind = "sql_err_before_effect"
	case "lost":
		kind = "sql_effect_reply_lost"
	case "hang":
		kind = "sql_hang"
	}
	s.stats.Faults[kind]++
	if s.stmtFailHit {
		s.stmtFailHit = false
		s.stats.Faults["stmt_fail_window"]++
	} else {
		s.fired = append(s.fired, ExplicitFault{Key: key, Fault: f})
	}
	s.mon.onFault(key, f)
	s.trace("FAULT %s %s", key, f)
}

// immediateDial: a dial to a reachable, running server is answered at once (zero simulated
// latency, no event, no fault decision): which goroutine of a daemon obtains the pool's idle
// connection and which one has to dial is decided by the Go scheduler, so it must not be visible
// in timing or in call identities. Statements always cost time; failing dials cost time too.
func (s *Sim) immediateDial(c *call) bool {
	if c.kind != callSQLDial || !s.srcAlive(c.src) {
		return false
	}
	sv := s.mysql.servers[c.dst]
	if sv == nil || !sv.Up || s.net.blockedMode(srcHostOf(c.src), c.dst) != "" {
		return false
	}
	s.mon.touch(c.src, sv)
	sv.conns[c.connID] = true
	s.finishSQL(c, sqlResult{rows: [][]any{{sv.Epoch}}}, true)
	return true
}

func (s *Sim) scheduleCall(c *call) {
	if !s.srcAlive(c.src) {
		return // dead process: its calls go nowhere and are never answered
	}
	lat := s.baseLatency(c.key)
	if c.kind == callZKDial {
		s.after(lat, "zkdial", func() { s.deliverZKDial(c) })
		return
	}
	flt := ""
	if c.kind != callSQLDial {
		flt = s.decide(c)
	}
	if flt != "" {
		s.noteFault(c.key, flt)
	}
	if flt == "hang" {
		s.trace("SQL-HANG %s %s", c.key, c.query)
		// the statement was attempted: oracles see it as sent, never applied, never answered
		s.mon.onSQL(&SQLEvent{Seq: s.evSeq, T: s.now(), Src: c.src, Dst: c.dst, Kind: queryKind(c.query), Query: c.query, Args: c.args, Mutating: isMutating(c.query), Fault: "hang", Err: "hang", It: c.it, Issued: c.issued, InSwitch: c.inSwitch})
		return
	}
	if strings.HasPrefix(flt, "slow:") {
		n, _ := strconv.Atoi(flt[5:])
		lat += time.Duration(n) * time.Millisecond
		flt = ""
		if n >= 1000 {
			// may outlast the caller's deadline: until it is delivered the monitors see a pending attempt
			c.marker = &SQLEvent{Seq: s.evSeq, T: s.now(), Src: c.src, Dst: c.dst, Kind: queryKind(c.query), Query: c.query, Args: c.args, Mutating: isMutating(c.query), Fault: "slow", Err: "pending", Pending: true, It: c.it, Issued: c.issued, InSwitch: c.inSwitch}
			s.mon.onSQL(c.marker)
		}
	}
	if s.spec.World.Burst {
		// race-hunting mode: everything pending is released at the same instant
		lat = 200 * time.Microsecond
	}
	s.after(lat, "sql", func() { s.deliverSQL(c, flt) })
}

func (s *Sim) finishSQL(c *call, r sqlResult, _ bool) {
	if c.done {
		return
	}
	c.done = true
	if !s.srcAlive(c.src) {
		return
	}
	select {
	case c.res <- r:
	default:
	}
}

// crashPoint is consulted at every external call of the armed incarnation; returns
// "", "before" or "after".
func (s *Sim) crashPoint(inc string) string {
	ca := s.spec.CrashAt
	if ca == nil || s.crashDone || s.crashInc == "" || inc != s.crashInc {
		return ""
	}
	if ca.Mode == "kill_master_after_replica_mutation" {
		return "" // handled in deliverSQL, where the statement is known
	}
	s.crashCount++
	if s.crashCount < ca.N {
		return ""
	}
	s.crashDone = true
	s.stats.Probes["crash_point_fired"]++
	s.stats.Probes[fmt.Sprintf("crash_point_n_%03d", ca.N)]++
	s.mon.onFault("crash_at", inc)
	d := s.daemons[inc]
	if d == nil {
		return ""
	}
	host := d.host
	switch ca.Mode {
	case "kill_master_mysql":
		// not a crash of the manager: the recorded master's MySQL dies at this call boundary
		if sv := s.mysql.servers[s.recordedMaster()]; sv != nil {
			s.trace("CRASHPOINT kill-master-mysql %s n=%d", inc, ca.N)
			s.stats.Faults["master_mysql_killed_mid_iteration"]++
			s.mysql.crashServer(sv, 0)
			sv.lastWorldChange = s.now()
			if ca.RestartMs > 0 {
				s.after(ms(ca.RestartMs), "restart-master-mysql", func() { s.mysql.startServer(sv) })
			}
		}
		return ""
	case "fail":
		s.trace("CRASHPOINT fail-call %s n=%d", inc, ca.N)
		s.stats.Faults["single_call_failed"]++
		return "fail"
	case "zkcut":
		s.trace("CRASHPOINT zkcut %s n=%d", inc, ca.N)
		s.stats.Faults["crashpoint_zkcut"]++
		s.net.setBlock(host, "zk", "blackhole")
		s.after(ms(ca.CutMs), "heal-zkcut", func() {
			s.net.setBlock(host, "zk", "")
			s.net.flushHeld()
		})
		return ""
	case "before":
		s.stats.Faults["crashpoint_before_call"]++
	default:
		s.stats.Faults["crashpoint_after_call"]++
	}
	if ca.RestartMs > 0 {
		s.after(ms(ca.RestartMs), "restart-after-crashpoint", func() { s.startDaemon(host) })
	}
	if ca.Mode == "before" {
		return "before"
	}
	return "after"
}

func (s *Sim) deliverSQL(c *call, flt string) {
	// the recorded master's MySQL dies right when the managing incarnation sends its N-th
	// mutating statement to another server (i.e. in the middle of an update it has decided on)
	if ca := s.spec.CrashAt; ca != nil && ca.Mode == "kill_master_after_replica_mutation" && !s.crashDone && s.crashInc == c.src && c.kind != callSQLDial && isMutating(c.query) {
		if master := s.recordedMaster(); c.dst != master {
			s.crashCount++
			if s.crashCount >= ca.N {
				s.crashDone = true
				s.stats.Probes["crash_point_fired"]++
				s.mon.onFault("crash_at", c.src)
				if sv := s.mysql.servers[master]; sv != nil {
					s.trace("CRASHPOINT kill-master-mysql-after-replica-mutation %s n=%d [%s -> %s]", c.src, ca.N, c.query, c.dst)
					s.stats.Faults["master_mysql_killed_mid_update"]++
					s.mysql.crashServer(sv, 0)
					sv.lastWorldChange = s.now()
					if ca.RestartMs > 0 {
						s.after(ms(ca.RestartMs), "restart-master-mysql", func() { s.mysql.startServer(sv) })
					}
				}
			}
		}
	}
	switch s.crashPoint(c.src) {
	case "before":
		flt = "crash_before"
	case "after":
		flt = "crash_after"
	case "fail":
		flt = "err:1105"
	}
	if flt == "crash_before" {
		if d := s.daemons[c.src]; d != nil {
			s.trace("CRASH-BEFORE %s %s", c.key, c.query)
			s.killDaemon(d, false)
		}
		return
	}
	defer func() {
		if flt == "crash_after" {
			if d := s.daemons[c.src]; d != nil && d.alive {
				s.trace("CRASH-AFTER %s %s", c.key, c.query)
				s.killDaemon(d, false)
			}
		}
	}()
	s.stats.SQLCalls++
	ev := &SQLEvent{Seq: s.evSeq, T: s.now(), Src: c.src, Dst: c.dst, Kind: queryKind(c.query), Query: c.query, Args: c.args, Mutating: isMutating(c.query), Fault: flt, It: c.it, Issued: c.issued, InSwitch: c.inSwitch}
	if c.ctx != nil && c.ctx.Err() != nil {
		ev.CallerGone = true
	}
	if c.marker != nil {
		c.marker.Final = ev
	}
	srcHost := srcHostOf(c.src)
	fail := func(err error) {
		ev.Err = err.Error()
		s.mon.onSQL(ev)
		s.trace("SQL %s -> %s [%s] ERR %s", c.src, c.dst, c.query, ev.Err)
		s.finishSQL(c, sqlResult{err: err}, false)
	}
	switch s.net.blockedMode(srcHost, c.dst) {
	case "blackhole":
		s.trace("SQL-BLACKHOLE %s %s", c.key, c.query)
		s.stats.Faults["net_blackhole_sql"]++
		// nothing comes back, the caller's deadline decides; the monitors see an attempt
		ev.Fault, ev.Err = "blackhole", "hang"
		s.mon.onSQL(ev)
		return
	case "reject":
		s.stats.Faults["net_reject_sql"]++
		fail(errRefused())
		return
	}
	sv := s.mysql.servers[c.dst]
	if sv == nil {
		fail(&net.OpError{Op: "dial", Net: "tcp", Err: &net.DNSError{Err: "no such host", Name: c.dst, IsNotFound: true}})
		return
	}
	s.mon.touch(c.src, sv)
	if !sv.Up {
		if c.kind == callSQLDial {
			fail(errRefused())
		} else {
			fail(driver.ErrBadConn)
		}
		return
	}
	if c.kind == callSQLDial {
		if strings.HasPrefix(flt, "err:") {
			n, _ := strconv.Atoi(flt[4:])
			if n == 1040 || n == 1045 {
				fail(myErr(uint16(n), "injected"))
			} else {
				fail(errRefused())
			}
			return
		}
		sv.conns[c.connID] = true
		s.trace("SQL %s -> %s <dial> ok", c.src, c.dst)
		s.finishSQL(c, sqlResult{rows: [][]any{{sv.Epoch}}}, true)
		return
	}
	if !sv.conns[c.connID] {
		// connection belongs to a previous server incarnation
		fail(driver.ErrBadConn)
		return
	}
	if strings.HasPrefix(flt, "err:") {
		n, _ := strconv.Atoi(flt[4:])
		if n == 2013 {
			delete(sv.conns, c.connID)
			fail(errInvalidConn)
		} else {
			fail(myErr(uint16(n), "injected fault"))
		}
		return
	}
	ev.Before = sv.stateSig()
	res, deferred := s.mysql.exec(sv, c)
	ev.After = sv.stateSig()
	ev.Applied = true
	if strings.HasPrefix(c.query, "SELECT @@read_only") {
		ev.Aux = fmt.Sprintf("ro=%v", sv.ReadOnly)
	}
	if strings.HasPrefix(c.query, "SHOW SLAVE STATUS") || strings.HasPrefix(c.query, "SHOW REPLICA STATUS") {
		if !sv.HasChannel {
			ev.Aux = "master"
		} else if sv.IORun && !sv.IOConnecting && sv.SQLRun {
			ev.Aux = "running"
		} else {
			ev.Aux = "notrunning"
		}
		if sv.HasChannel && sv.LastSQLErrno == 0 && (sv.LastIOErrno == 0 || sv.LastIOErrno == 2003) {
			for _, o := range s.mysql.sorted() {
				// what the server holds durably: visible executed set plus binlogged commits still
				// waiting for their semi-sync ACK
				if o != sv && sv.Executed.Union(sv.BinlogSet).SubsetOf(o.Holds()) {
					ev.CleanWrt = append(ev.CleanWrt, o.Name)
				}
			}
		}
	}
	ev.Effective = ev.Before != ev.After
	if res.err != nil {
		ev.Err = res.err.Error()
	}
	s.mon.onSQL(ev)
	if s.verbose && os.Getenv("VERIF_DEBUG_STK") != "" {
		s.trace("SQL %s -> %s [%s] %v err=%s eff=%v key=%s stk=%x conn=%d", c.src, c.dst, c.query, c.args, ev.Err, ev.Effective, c.key, c.stk, c.connID)
	} else if ev.Mutating || s.verbose {
		s.trace("SQL %s -> %s [%s] %v err=%s eff=%v", c.src, c.dst, c.query, c.args, ev.Err, ev.Effective)
	} else {
		s.trace("SQL %s -> %s %s err=%s", c.src, c.dst, ev.Kind, ev.Err)
	}
	if deferred {
		ev.Err = "pending" // outcome not known yet; filled in when the blocked statement finishes
		c.ev = ev
		return
	}
	if flt == "lost" {
		delete(sv.conns, c.connID)
		s.finishSQL(c, sqlResult{err: errInvalidConn}, false)
		return
	}
	s.finishSQL(c, res, true)
}

func (s *Sim) deliverZKDial(c *call) {
	host := srcHostOf(c.src)
	if s.net.zkDown || s.net.blockedMode(host, "zk") == "reject" {
		s.stats.Faults["zk_dial_refused"]++
		s.finishSQL(c, sqlResult{err: errRefused()}, false)
		return
	}
	if s.net.blockedMode(host, "zk") == "blackhole" {
		s.stats.Faults["zk_dial_timeout"]++
		s.after(3*time.Second, "zkdial-timeout", func() {
			s.finishSQL(c, sqlResult{err: &net.OpError{Op: "dial", Net: "tcp", Err: fmt.Errorf("i/o timeout")}}, false)
		})
		return
	}
	s.finishSQL(c, sqlResult{}, true)
}

// zk per-request decisions -------------------------------------------------------------

func zkReqIdent(op int32, req []byte) string {
	r := &jr{b: req}
	r.i32()
	r.i32()
	path := ""
	switch op {
	case 1, 2, 3, 4, 5, 8, 12:
		path = r.str()
	}
	return fmt.Sprintf("op%d:%s", op, path)
}

func (s *Sim) zkFault(c *memConn, op int32, req []byte) string {
	base := c.owner + "|zk|" + zkReqIdent(op, req)
	s.occ[base]++
	key := fmt.Sprintf("%s|%d", base, s.occ[base])
	s.mon.onZKCall(c.owner, key)
	switch s.crashPoint(c.owner) {
	case "before":
		if d := s.daemons[c.owner]; d != nil {
			s.killDaemon(d, false)
		}
		return "reset_before"
	case "after":
		if d := s.daemons[c.owner]; d != nil {
			dd := d
			s.after(0, "crash-after-zk", func() { s.killDaemon(dd, false) })
		}
		return ""
	case "fail":
		return "reset_before"
	}
	if f, ok := s.explicit[key]; ok {
		if strings.HasPrefix(f, "zk:") {
			s.noteFault(key, f)
			return f[3:]
		}
		if f == "crash_before" || f == "crash_after" {
			if d := s.daemons[c.owner]; d != nil {
				s.noteFault(key, f)
				if f == "crash_before" {
					s.killDaemon(d, false)
					return "reset_before"
				}
				dd := d
				s.after(0, "crash-after-zk", func() { s.killDaemon(dd, false) })
				return ""
			}
		}
		return ""
	}
	if !s.ratesActive() || !s.faultEligible(c.owner) {
		return ""
	}
	r := &s.spec.Rates
	x := s.frac("zkflt", key)
	switch {
	case x < r.ZKReset:
		s.noteFault(key, "zk:reset_before")
		return "reset_before"
	case x < r.ZKReset+r.ZKResetAfter:
		s.noteFault(key, "zk:reset_after")
		return "reset_after"
	}
	if op == 2 && r.ZKResetAfterDelete > 0 && s.frac("zkdel", key) < r.ZKResetAfterDelete {
		s.noteFault(key, "zk:reset_after")
		return "reset_after"
	}
	return ""
}

// zkLatency: keyed by connection, frame content (without the xid) and the sending instant, so
// that identical requests issued by two goroutines at the same instant travel together and
// the scheduler's choice of "who was first" stays invisible.
func (s *Sim) zkLatency(c *memConn, frame []byte, up bool) time.Duration {
	c.upCount++
	body := frame
	if len(body) >= 4 {
		body = body[4:]
	}
	dir := "zkdown"
	if up {
		dir = "zkup"
	}
	k := fmt.Sprintf("%s|%d|%s|%d", dir, c.id, zkContentKey(body), int64(s.now()))
	lat := s.baseLatency(k)
	if up && s.ratesActive() && s.faultEligible(c.owner) && s.spec.Rates.ZKSlow > 0 {
		if s.frac("zkslow", k) < s.spec.Rates.ZKSlow {
			d := []int{50, 300, 1500}[s.h("zkslowd", k)%3]
			s.stats.Faults["zk:slow"]++
			lat += time.Duration(d) * time.Millisecond
		}
	}
	return lat
}

// zkContentKey: opcode, path and payload of a request (body without xid), with the OS pid of
// this run process normalised away (it appears in the lock owner record and, through its digit
// count, in every length prefix around it).
func zkContentKey(body []byte) string {
	r := &jr{b: body}
	op := r.i32()
	switch op {
	case 1, 5: // create, setData: path + data
		path := r.str()
		data := string(r.buf())
		if strings.Contains(data, `"pid":`) {
			data = pidRe.ReplaceAllString(data, `"pid":0`)
		}
		rest := ""
		if !r.bad && r.o <= len(body) {
			rest = fmt.Sprintf("%x", hashStr(string(body[r.o:])))
		}
		return fmt.Sprintf("op%d:%s:%x:%s", op, path, hashStr(data), rest)
	case 2, 3, 4, 8, 12:
		path := r.str()
		rest := ""
		if !r.bad && r.o <= len(body) {
			rest = fmt.Sprintf("%x", hashStr(string(body[r.o:])))
		}
		return fmt.Sprintf("op%d:%s:%s", op, path, rest)
	}
	return fmt.Sprintf("op%d:%x", op, hashStr(string(body)))
}
