// Package simrt holds the runtime shims that the build-time rewriter substitutes
// into mysync's own packages (never into dependencies):
//
//   - Mutex / RWMutex / Once: same method sets as package sync, implemented on a
//     1-slot channel so that a goroutine waiting for them is *durably blocked*
//     for testing/synctest (a goroutine parked on sync.Mutex is not, and the
//     bubble would never become quiescent while the holder waits for the simulator).
//   - RangeMap: deterministic, seed-permuted iteration order for `range` over maps.
//     Any order is legal Go; the simulator turns the order into a replayable choice.
package simrt

import (
	"cmp"
	"fmt"
	"hash/fnv"
	"iter"
	"reflect"
	"sort"
	"sync"
	"sync/atomic"
)

// Seed is set by the harness before any mysync code runs.
var Seed uint64

// ---------------------------------------------------------------- Mutex

type Mutex struct {
	once sync.Once
	ch   chan struct{}
}

func (m *Mutex) init() { m.once.Do(func() { m.ch = make(chan struct{}, 1) }) }

func (m *Mutex) Lock() { m.init(); m.ch <- struct{}{} }

func (m *Mutex) Unlock() {
	m.init()
	select {
	case <-m.ch:
	default:
		panic("simrt: unlock of unlocked mutex")
	}
}

func (m *Mutex) TryLock() bool {
	m.init()
	select {
	case m.ch <- struct{}{}:
		return true
	default:
		return false
	}
}

// ---------------------------------------------------------------- RWMutex (writer-exclusive, readers counted)

type RWMutex struct {
	w       Mutex
	mu      Mutex
	readers int
}

func (rw *RWMutex) Lock()   { rw.w.Lock() }
func (rw *RWMutex) Unlock() { rw.w.Unlock() }
func (rw *RWMutex) RLock() {
	rw.mu.Lock()
	rw.readers++
	if rw.readers == 1 {
		rw.w.Lock()
	}
	rw.mu.Unlock()
}
func (rw *RWMutex) RUnlock() {
	rw.mu.Lock()
	rw.readers--
	if rw.readers == 0 {
		rw.w.Unlock()
	}
	rw.mu.Unlock()
}

// ---------------------------------------------------------------- Once

type Once struct {
	done atomic.Uint32
	m    Mutex
}

func (o *Once) Do(f func()) {
	if o.done.Load() == 1 {
		return
	}
	o.m.Lock()
	defer o.m.Unlock()
	if o.done.Load() == 0 {
		defer o.done.Store(1)
		f()
	}
}

// ---------------------------------------------------------------- RangeMap

func h64(parts ...string) uint64 {
	h := fnv.New64a()
	for _, p := range parts {
		h.Write([]byte(p))
		h.Write([]byte{0})
	}
	x := h.Sum64()
	// final avalanche (splitmix)
	x ^= x >> 30
	x *= 0xbf58476d1ce4e5b9
	x ^= x >> 27
	x *= 0x94d049bb133111eb
	x ^= x >> 31
	return x
}

func keyString(v reflect.Value) string {
	switch v.Kind() {
	case reflect.String:
		return v.String()
	case reflect.Int, reflect.Int8, reflect.Int16, reflect.Int32, reflect.Int64:
		return fmt.Sprintf("%020d", v.Int()+(1<<62))
	case reflect.Uint, reflect.Uint8, reflect.Uint16, reflect.Uint32, reflect.Uint64:
		return fmt.Sprintf("%020d", v.Uint())
	default:
		return fmt.Sprintf("%v", v.Interface())
	}
}

// RangeMap iterates m in an order that is a pure function of (Seed, site, key set).
// Keys deleted during the iteration are skipped, keys added are not visited - both
// are behaviours Go itself permits.
func RangeMap[M ~map[K]V, K comparable, V any](site string, m M) iter.Seq2[K, V] {
	return func(yield func(K, V) bool) {
		if len(m) == 0 {
			return
		}
		type kk struct {
			k K
			s string
		}
		keys := make([]kk, 0, len(m))
		for k := range m {
			keys = append(keys, kk{k, keyString(reflect.ValueOf(k))})
		}
		sort.Slice(keys, func(i, j int) bool { return cmp.Less(keys[i].s, keys[j].s) })
		// seed-dependent permutation: sort by hash(seed, site, key)
		seed := fmt.Sprintf("%d", Seed)
		type hk struct {
			h uint64
			i int
		}
		hs := make([]hk, len(keys))
		for i, k := range keys {
			hs[i] = hk{h64(seed, site, k.s), i}
		}
		sort.Slice(hs, func(i, j int) bool {
			if hs[i].h != hs[j].h {
				return hs[i].h < hs[j].h
			}
			return hs[i].i < hs[j].i
		})
		for _, x := range hs {
			k := keys[x.i].k
			v, ok := m[k]
			if !ok {
				continue
			}
			if !yield(k, v) {
				return
			}
		}
	}
}

// RangeMapKeys is the one-variable form (`for k := range m`).
func RangeMapKeys[M ~map[K]V, K comparable, V any](site string, m M) iter.Seq[K] {
	return func(yield func(K) bool) {
		for k := range RangeMap(site, m) {
			if !yield(k) {
				return
			}
		}
	}
}

// Flip is the simulator's choice of polling priority for a two-case select (see the rewriter):
// fixed per (Seed, site), so one seed is one repeatable schedule and different seeds differ.
func Flip(site string) bool {
	return h64(fmt.Sprintf("%d", Seed), "select", site)&1 == 0
}
