package verifsim

import (
	"encoding/json"
	"fmt"
	"strings"
	"time"
)

type healthJSON struct {
	PingOk               bool `json:"ping_ok"`
	IsFileSystemReadonly bool `json:"is_file_system_readonly"`
	DaemonState          *struct {
		CrashRecovery bool `json:"crash_recovery"`
	} `json:"daemon_state"`
}

type healthEval struct {
	t   time.Duration
	bad bool
}

// C05 - automatic failover is filed only when every gate is open (reference predicate of DESIGN App. D).
type orC05 struct {
	baseOracle
	evals map[string][]healthEval // per incarnation: evaluations of the master's health record (Manager iterations)
}

func (o *orC05) name() string { return "C05" }

func lastReadIn(it *iterRec, path string, before uint64) (zkRead, bool) {
	var r zkRead
	ok := false
	for _, x := range it.reads {
		if x.path == path && x.op == "get" && x.seq <= before {
			r, ok = x, true
		}
	}
	return r, ok
}

func (o *orC05) masterHealthAsRead(it *iterRec, master string, before uint64) (bad, waiveFS, crashRec, found bool) {
	r, ok := lastReadIn(it, "health/"+master, before)
	if !ok {
		return false, false, false, false
	}
	if r.err != 0 {
		return true, false, false, true // record absent = bad
	}
	var h healthJSON
	if json.Unmarshal([]byte(r.data), &h) != nil {
		return true, false, false, true
	}
	bad = !h.PingOk || h.IsFileSystemReadonly
	return bad, h.IsFileSystemReadonly, h.DaemonState != nil && h.DaemonState.CrashRecovery, true
}

func (o *orC05) onIterLeave(it *iterRec) {
	if it.state != "Manager" {
		return
	}
	m := o.m
	if o.evals == nil {
		o.evals = map[string][]healthEval{}
	}
	master := ""
	if r, ok := lastReadIn(it, "master", ^uint64(0)); ok && r.err == 0 {
		master = strings.Trim(r.data, `"`)
	}
	if master == "" {
		return
	}
	bad, _, _, found := o.masterHealthAsRead(it, master, ^uint64(0))
	if found {
		o.evals[it.inc] = append(o.evals[it.inc], healthEval{it.startT, bad})
	}
	// second clause: master unreachable for the manager while its own record is good ->
	// nothing filed, no repair
	pendingSwitch := false
	for _, x := range it.reads {
		if x.path == "switch" && x.op == "get" && x.err == 0 {
			pendingSwitch = true // processing a pending request is not a repair (C06/C07 territory)
		}
	}
	if found && !bad && !pendingSwitch {
		probes, failed := 0, 0
		for _, e := range it.sql {
			if e.Dst == master && e.Kind == "ping" && e.Src == it.inc {
				probes++
				if !e.toldOK() {
					failed++
				}
			}
		}
		// dial failures never reach deliverSQL as ping events; count unanswered master calls
		answered := false
		for _, e := range it.sql {
			if e.Dst == master && e.toldOK() {
				answered = true
			}
		}
		if !answered && m.s.mysql.servers[master] != nil && (probes == 0 || failed == probes) && o.masterUnreachableFrom(it.inc, master) {
			m.probe("c05_suspicious_master_iteration")
			for _, w := range it.zkWrites {
				if w.Path == "/test/switch" && w.Op == "create" && w.Err == 0 {
					m.violate("C05", "suspicious_master_filed", "failover-filed-while-master-record-good", fmt.Sprintf("%s filed a request although it could not reach %s and the master's record was good", it.inc, master))
				}
			}
			for _, e := range it.sql {
				if e.Mutating && e.Src == it.inc {
					m.violate("C05", "suspicious_master_repair", "repair-while-master-unreachable-and-record-good:"+e.Kind, fmt.Sprintf("%s sent %q to %s in an iteration in which it could not reach master %s while the master's record was good", it.inc, e.Query, e.Dst, master))
					break
				}
			}
		}
	}
}

func (o *orC05) masterUnreachableFrom(inc, master string) bool {
	s := o.m.s
	sv := s.mysql.servers[master]
	if sv == nil {
		return false
	}
	return !sv.Up || s.net.blocked(srcHostOf(inc), master)
}

func (o *orC05) onZK(e *ZKEvent) {
	m := o.m
	if e.Err != 0 || e.Path != "/test/switch" || e.Op != "create" || !m.isDaemon(e.Inc) {
		return
	}
	sw := parseSwitch(e.Data)
	if sw == nil || sw.Cause != "auto" {
		return
	}
	m.probe("c05_auto_failover_filed")
	cfg := &m.s.spec.Cfg
	it := m.iters[e.Inc]
	if it == nil || !it.open {
		m.violate("C05", "filed_outside_iteration", "failover-filed-outside-state-handler", e.Inc)
		return
	}
	viol := func(gate, detail string) {
		m.violate("C05", gate, "failover-filed-with-closed-gate:"+gate, fmt.Sprintf("%s filed automatic failover from %s at %v: %s", e.Inc, sw.From, m.s.now(), detail))
	}
	// G1
	if !cfg.Failover {
		viol("G1_failover_disabled", "failover is disabled in the configuration")
	}
	// G2 maintenance as read in this iteration
	if r, ok := lastReadIn(it, "maintenance", e.Seq); ok && r.err == 0 {
		viol("G2_maintenance", "maintenance record present: "+r.data)
	} else if !ok {
		m.probe("c05_no_maintenance_read")
	}
	// G3 another switch pending (as read)
	if r, ok := lastReadIn(it, "switch", e.Seq); ok && r.err == 0 {
		viol("G3_switch_pending", "another request was pending: "+r.data)
	}
	master := sw.From
	bad, waiveFS, crashRec, found := o.masterHealthAsRead(it, master, e.Seq)
	waive := waiveFS || (crashRec && cfg.ResetupCrashedHosts)
	if waive {
		m.probe("c05_delay_waived")
	}
	// G4 bad for at least the delay at every evaluation by this manager
	if !waive {
		if found && !bad {
			viol("G4_master_record_good", "the master's health record read in this iteration was good")
		}
		if cfg.FailoverDelayMs > 0 {
			evs := o.evals[e.Inc]
			// unbroken bad streak of this incarnation ending now
			streakStart := it.startT
			for i := len(evs) - 1; i >= 0; i-- {
				if !evs[i].bad {
					break
				}
				streakStart = evs[i].t
			}
			if m.s.now()-streakStart < ms(cfg.FailoverDelayMs)-50*time.Millisecond {
				viol("G4_delay", fmt.Sprintf("master seen bad by this manager only since %v (delay %dms)", streakStart, cfg.FailoverDelayMs))
			}
		}
		// G5 not every other HA node is still replicating (judged on what its probes showed)
		nHA, nRun, unknown := 0, 0, 0
		for _, h := range m.s.zk.children("/test/ha_nodes") {
			nHA++
			if h == master {
				continue
			}
			st := ""
			for _, x := range it.sql {
				if x.Dst == h && x.Aux != "" && x.Seq <= e.Seq {
					if x.toldOK() {
						st = x.Aux
					}
				}
			}
			// one failing status query voids the whole probe of that host (getNodeState)
			for _, x := range it.sql {
				if x.Dst == h && x.Src == it.inc && x.Seq <= e.Seq && !x.Mutating && !x.toldOK() {
					st = ""
				}
			}
			switch st {
			case "running":
				nRun++
			case "":
				unknown++
			}
		}
		if nRun > 0 && nRun == nHA-1 && unknown == 0 {
			viol("G5_all_replicas_streaming", fmt.Sprintf("all %d other HA nodes were seen replicating (looks like a coordination-service problem)", nRun))
		}
	}
	// G6 alive replicas within the active list reach the quorum
	var A []string
	if raw, ok := firstRead(it, "active_nodes"); ok {
		A = parseStrList(raw)
	}
	q := quorumFor(len(A), cfg)
	alive := 0
	for _, h := range A {
		if h == master || m.isCascade(h) {
			continue
		}
		for _, x := range it.sql {
			if x.Dst == h && x.Aux != "" && x.Aux != "master" && x.toldOK() && x.Seq <= e.Seq {
				alive++
				break
			}
		}
	}
	if cfg.SemiSync {
		if alive < q {
			viol("G6_quorum", fmt.Sprintf("alive active replicas %d < quorum %d (active=%v)", alive, q, A))
		}
	} else if alive == 0 {
		viol("G6_quorum", fmt.Sprintf("no alive active replica (active=%v)", A))
	}
	// G7 cooldown
	if r, ok := lastReadIn(it, "last_switch", e.Seq); ok && r.err == 0 {
		if ls := parseSwitch(r.data); ls != nil && ls.Cause == "auto" && ls.Result != nil {
			age := m.s.t0.Add(m.s.now()).Sub(ls.Result.FinishedAt)
			if age < ms(cfg.FailoverCooldownMs)-50*time.Millisecond {
				viol("G7_cooldown", fmt.Sprintf("last automatic failover finished %v ago (cooldown %dms)", age, cfg.FailoverCooldownMs))
			}
		}
	}
}
