package verifsim

import "fmt"

// family offline (C17)
func genOffline(r *rng, index int) *Spec {
	sp := baseSpec(r, shapeOpt{minHA: 2, maxHA: 2})
	c := &sp.Cfg
	sep := []string{"-", ".", ""}[index%3]
	zones := []string{"vla", "sas", "myt"}[:1+(index/3)%3]
	nRepl := 1 + (index/9)%6
	sp.Hosts = nil
	sepName := sep
	if sepName == "" {
		sepName = "x"
	}
	sp.Hosts = append(sp.Hosts, HostSpec{Name: zones[0] + sepName + "m0", Role: "ha"})
	for i := 0; i < nRepl; i++ {
		z := zones[i%len(zones)]
		role := "ha"
		h := HostSpec{Name: fmt.Sprintf("%s%sr%d", z, sepName, i+1), Role: role}
		if index%2 == 1 {
			// more than one separator in the name: the zone is the prefix before the first one
			h.Name = fmt.Sprintf("%s%sr%d%sdb", z, sepName, i+1, sepName)
		}
		if i >= 3 && r.chance(0.4) {
			h.Role = "cascade"
			h.StreamFrom = sp.Hosts[1].Name
		}
		sp.Hosts = append(sp.Hosts, h)
	}
	c.Failover = false
	c.CustomLagQuery = true
	c.OfflineAZSep = sep
	c.OfflineMaxPct = []int{0, 25, 34, 50, 67, 100, 50}[r.intn(7)]
	c.OfflineEnableLagMs = 600000
	c.OfflineDisableLagMs = 30000
	c.OfflineEnableIntervalMs = int64(r.pickInt(10000, 30000, 60000))
	c.TickMs = int64(r.pickInt(1000, 2000))
	c.AggressiveRepair = false
	c.OptHighMs, c.OptLowMs = 100000000, 90000000 // keep the optimisation module out of the way here
	master := sp.Hosts[0].Name
	_ = master
	lagVals := []int64{0, 10, 30, 31, 300, 599, 600, 601, 5000, -1}
	t := int64(6000)
	var script []string
	steps := r.rangeInt(4, 10)
	for i := 0; i < steps; i++ {
		t += int64(r.pickInt(2500, 5000, 9000))
		// several replicas cross the threshold in the same pass
		k := r.rangeInt(1, 3)
		for j := 0; j < k; j++ {
			h := sp.Hosts[1+r.intn(nRepl)].Name
			lv := lagVals[r.intn(len(lagVals))]
			sp.Timeline = append(sp.Timeline, TLEvent{AtMs: t, Kind: "lag", Host: h, N: lv})
			script = append(script, fmt.Sprintf("%s=%d@%d", h, lv, t/1000))
		}
	}
	for i := 0; i < nRepl; i++ {
		h := sp.Hosts[1+i].Name
		switch r.intn(10) {
		case 0:
			sp.Timeline = append(sp.Timeline, TLEvent{AtMs: 7000 + int64(r.intn(20000)), Kind: "repl_error", Host: h, N: int64(r.pickInt(1146, 1118)), Arg: "sql"})
			sp.Timeline = append(sp.Timeline, TLEvent{AtMs: 7000, Kind: "lag", Host: h, N: int64(r.pickInt(0, 100))})
		case 1:
			sp.Timeline = append(sp.Timeline, TLEvent{AtMs: 7000 + int64(r.intn(20000)), Kind: "repl_error", Host: h, N: 1236, Arg: "io"})
			sp.Timeline = append(sp.Timeline, TLEvent{AtMs: 7000, Kind: "lag", Host: h, N: int64(r.pickInt(0, 100))})
		case 2:
			sp.hostSpecByName(h).Init = &InitState{Offline: pb(true)}
		case 3:
			// stale / positive resetup status relative to server start
			sp.Timeline = append(sp.Timeline, TLEvent{AtMs: 9000 + int64(r.intn(10000)), Kind: "touch_resetup", Host: h})
			sp.hostSpecByName(h).Init = &InitState{Offline: pb(true)}
		case 4:
			sp.Timeline = append(sp.Timeline, TLEvent{AtMs: 9000 + int64(r.intn(10000)), Kind: "kill_mysql", Host: h, Fault: true, DurMs: int64(r.pickInt(3000, 9000))})
		case 5:
			sp.Timeline = append(sp.Timeline, TLEvent{AtMs: 9000 + int64(r.intn(10000)), Kind: "kill_daemon", Host: h, Fault: true, DurMs: int64(r.pickInt(0, 9000))})
		case 6:
			// the replica's own daemon is gone (resetup status stops being refreshed), then its mysqld
			// restarts while it is offline with low lag: the recorded status is older than the start
			at := 8000 + int64(r.intn(6000))
			sp.hostSpecByName(h).Init = &InitState{Offline: pb(true)}
			sp.Timeline = append(sp.Timeline, TLEvent{AtMs: 5500, Kind: "lag", Host: h, N: 3000})
			sp.Timeline = append(sp.Timeline, TLEvent{AtMs: at, Kind: "kill_daemon", Host: h, Fault: true, DurMs: int64(r.pickInt(0, 0, 15000))})
			sp.Timeline = append(sp.Timeline, TLEvent{AtMs: at + 2500, Kind: "kill_mysql", Host: h, Fault: true, DurMs: int64(r.pickInt(1500, 4000))})
			sp.Timeline = append(sp.Timeline, TLEvent{AtMs: at + 8000, Kind: "lag", Host: h, N: int64(r.pickInt(0, 20))})
		}
	}
	if r.chance(0.2) {
		sp.hostSpecByName(master).Init = &InitState{Offline: pb(true)}
		if r.chance(0.5) {
			sp.Timeline = append(sp.Timeline, TLEvent{AtMs: 50, Kind: "zk_set", Arg: "/test/recovery/" + master, Arg2: "null"})
		}
		if r.chance(0.5) {
			// the manager is not the master's own daemon
			sp.Hosts[1].StartDelayMs = 30
			sp.Hosts[0].StartDelayMs = 2500
			script = append(script, "manager_on="+sp.Hosts[1].Name)
		}
		script = append(script, "master_offline")
	}
	if r.chance(0.3) {
		// the master turns read-only at the very moment a replica's lag crosses the enable threshold
		at := 9000 + int64(r.intn(15000))
		h := sp.Hosts[1+r.intn(nRepl)].Name
		// both flavours of a read-only master
		sp.Timeline = append(sp.Timeline, TLEvent{AtMs: at, Kind: "sql", Host: master, Arg: []string{"SET GLOBAL super_read_only = 1", "SET GLOBAL read_only = 1, super_read_only = 0"}[r.intn(2)]})
		sp.Timeline = append(sp.Timeline, TLEvent{AtMs: at, Kind: "lag", Host: h, N: 7000})
		sp.Timeline = append(sp.Timeline, TLEvent{AtMs: at + int64(r.pickInt(500, 1500, 2500)), Kind: "lag", Host: h, N: int64(r.pickInt(100, 500))})
	}
	sp.World.AutoResetupMs = 0
	sp.World.ClientWriteMs = 1500
	sp.Variant = fmt.Sprintf("repl=%d zones=%d sep=%q cap=%d interval=%d script=%v", nRepl, len(zones), sep, c.OfflineMaxPct, c.OfflineEnableIntervalMs, script)
	sp.DurationMs = t + 30000
	sp.Primary = []string{"C17"}
	return sp
}
