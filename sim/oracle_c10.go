package verifsim

import (
	"fmt"
	"sort"
	"strings"
	"time"
)

// C10 - repair converges to the canonical topology without changing the master.
type orC10 struct {
	baseOracle
	initMaster  string
	resets      map[string]int           // per host: RESET ... ALL by repair since replication last ran
	lastAttempt map[string]time.Duration // per host: last repair attempt (START / RESET by repair)
	stale       map[string]bool          // hosts that claimed to be master beside the recorded one
	staleIter   map[string]*iterRec      // iteration that re-pointed the stale master
	recMarked   map[string]bool
}

func (o *orC10) name() string { return "C10" }

func (o *orC10) active() bool { return o.m.primary["C10"] }

func (o *orC10) onZK(e *ZKEvent) {
	if (o.active() || o.m.primary["C11"]) && e.Err == 0 && strings.HasPrefix(e.Path, "/test/recovery/") && (e.Op == "create" || e.Op == "set") {
		if o.recMarked == nil {
			o.recMarked = map[string]bool{}
		}
		o.recMarked[strings.TrimPrefix(e.Path, "/test/recovery/")] = true
	}
	if !o.active() || e.Err != 0 || e.Path != "/test/master" {
		return
	}
	m := o.m
	if e.Op == "set" || e.Op == "create" {
		v := strings.Trim(e.Data, `"`)
		if o.initMaster == "" {
			o.initMaster = v
			return
		}
		if v != o.initMaster && e.Inc != "external" {
			m.violate("C10", "master_changed", "recorded-master-changed-during-repair", fmt.Sprintf("%s set master to %s (was %s)", e.Inc, v, o.initMaster))
		}
	}
}

func (o *orC10) onSQL(ev *SQLEvent) {
	m := o.m
	if !m.isDaemon(ev.Src) {
		return
	}
	if o.resets == nil {
		o.resets = map[string]int{}
		o.lastAttempt = map[string]time.Duration{}
		o.stale = map[string]bool{}
	}
	q := ev.Query
	// never point a server at itself (checked everywhere, not only in this family)
	if strings.HasPrefix(q, "CHANGE MASTER TO") || strings.HasPrefix(q, "CHANGE REPLICATION SOURCE TO") {
		if mm := changeHostRe.FindStringSubmatch(q); mm != nil && mm[1] == ev.Dst {
			m.violate("C10", "self_source", "server-pointed-at-itself", fmt.Sprintf("%s sent CHANGE ... TO host=%s to %s itself", ev.Src, mm[1], ev.Dst))
		}
	}
	// a host that left the registry is left alone by the manager loop (two passes of grace for
	// the registry refresh); the health check of its own daemon keeps reading it, nothing more
	if o.active() && ev.Mutating && ev.It != nil && ev.It.state == "Manager" && ev.Kind != "set_lock_timeout" {
		if at, gone := m.deregAt[ev.Dst]; gone && !m.isCascade(ev.Dst) && ev.It.startT > at+2*ms(m.s.spec.Cfg.TickMs)+time.Second {
			m.violate("C10", "deregistered", "statement-to-deregistered-host", fmt.Sprintf("%s sent %q to %s, which left ha_nodes at %v (this pass began at %v)", ev.Src, ev.Query, ev.Dst, at, ev.It.startT))
		} else if gone {
			m.probe("c10_statement_to_leaving_host_in_grace")
		}
	}
	// stale master being turned into a replica by the repair pass
	if !o.active() && !m.primary["C11"] {
		return
	}
	if (strings.HasPrefix(q, "CHANGE MASTER TO") || strings.HasPrefix(q, "CHANGE REPLICATION SOURCE TO")) && ev.Applied && strings.Contains(ev.Before, "ch=false") && m.switchRaw == "" && ev.It != nil && ev.It.state == "Manager" {
		if o.staleIter == nil {
			o.staleIter = map[string]*iterRec{}
		}
		for _, e := range ev.It.sql {
			if e.Dst == ev.Dst && e.Applied && (strings.HasPrefix(e.Query, "RESET SLAVE ALL") || strings.HasPrefix(e.Query, "RESET REPLICA ALL")) {
				return // aggressive repair of a replica (reset, then re-point), not a stale master
			}
		}
		o.staleIter[ev.Dst] = ev.It
		m.probe("c10_stale_master_repointed")
	}
	if !o.active() {
		return
	}
	cfg := &m.s.spec.Cfg
	if (strings.HasPrefix(q, "RESET SLAVE ALL") || strings.HasPrefix(q, "RESET REPLICA ALL")) && ev.Applied && m.switchRaw == "" && ev.Dst != m.master {
		m.probe("c10_reset_replica_by_repair")
		if !cfg.AggressiveRepair {
			m.violate("C10", "reset_without_aggressive", "replica-reset-without-aggressive-mode", fmt.Sprintf("%s reset replication configuration of %s although aggressive repair is off", ev.Src, ev.Dst))
			return
		}
		o.resets[ev.Dst]++
		if o.resets[ev.Dst] > cfg.RepairMaxAttempts {
			m.violate("C10", "reset_over_limit", "replica-reset-beyond-attempt-limit", fmt.Sprintf("%s reset %s %d times (limit %d)", ev.Src, ev.Dst, o.resets[ev.Dst], cfg.RepairMaxAttempts))
		}
		if last, ok := o.lastAttempt[ev.Dst+"/reset"]; ok && m.s.now()-last < ms(cfg.RepairCooldownMs)-ms(cfg.TickMs) {
			m.violate("C10", "reset_cooldown", "replica-reset-within-cooldown", fmt.Sprintf("%s reset %s %v after the previous reset (cooldown %dms)", ev.Src, ev.Dst, m.s.now()-last, cfg.RepairCooldownMs))
		}
		o.lastAttempt[ev.Dst+"/reset"] = m.s.now()
	}
}

func (o *orC10) onIterLeave(it *iterRec) {
	if !(o.active() || o.m.primary["C11"]) || it.next == "<killed>" {
		return
	}
	for h, x := range o.staleIter {
		if x != it {
			continue
		}
		delete(o.staleIter, h)
		// calls of the iteration all succeeded? (a failed coordination call excuses the mark for now)
		failed := false
		for _, w := range it.zkWrites {
			if w.Err != 0 && w.Err != zkErrNodeExists {
				failed = true
			}
		}
		// whatever happens to the later statements of the re-pointing: once the host was found
		// claiming to be master and has been changed, the mark is due in the same pass
		if !o.recMarked[h] && !o.m.recovery[h] && !failed {
			if o.active() {
				o.m.violate("C10", "stale_master_unmarked", "stale-master-repointed-without-recovery-mark", fmt.Sprintf("%s turned stale master %s into a replica without marking it for recovery", it.inc, h))
			}
			if o.m.primary["C11"] {
				o.m.violate("C11", "stale_master_unmarked", "host-claiming-master-repointed-without-recovery-mark", fmt.Sprintf("%s found %s claiming to be master beside the recorded one and turned it into a replica without marking it for recovery", it.inc, h))
			}
		}
		if !o.active() {
			continue
		}
		off := false
		for _, e := range it.sql {
			if e.Dst == h && e.Query == "SET GLOBAL offline_mode = ON" && e.toldOK() {
				off = true
			}
		}
		if sv := o.m.s.mysql.servers[h]; sv != nil && !off && !sv.Offline && it.faults == 0 {
			o.m.violate("C10", "stale_master_online", "stale-master-not-taken-offline", fmt.Sprintf("%s repaired stale master %s without taking it offline", it.inc, h))
		}
	}
}

func (o *orC10) afterEvent() {
	if !o.active() || o.resets == nil {
		return
	}
	// replication seen running again -> a new error episode may use its attempts again
	for h := range o.resets {
		if sv := o.m.s.mysql.servers[h]; sv != nil && sv.HasChannel && sv.IORun && !sv.IOConnecting && sv.SQLRun && sv.StickySQLErr == 0 && sv.StickyIOErr == 0 {
			if o.m.s.now()-o.lastAttempt[h+"/reset"] > 3*time.Second {
				delete(o.resets, h)
			}
		}
	}
}

var permanentErrnos = map[int]bool{1236: true, 13114: true, 1146: true, 1118: true}

func (o *orC10) atEnd() {
	m := o.m
	s := m.s
	if !o.active() || s.spec.LivenessMs <= 0 {
		return
	}
	if m.final != nil && m.final.stableFor() < ms(s.spec.LivenessMs)/3 {
		m.probe("c10_still_moving_at_end")
		return
	}
	var probs []string
	master := m.master
	msv := s.mysql.servers[master]
	if master != o.initMaster && o.initMaster != "" {
		probs = append(probs, fmt.Sprintf("recorded master is %s, was %s", master, o.initMaster))
	}
	if msv == nil || !msv.Up {
		return
	}
	if msv.ReadOnly || msv.Offline {
		probs = append(probs, fmt.Sprintf("master %s ro=%v offline=%v", master, msv.ReadOnly, msv.Offline))
	}
	if s.spec.Cfg.SemiSync {
		want := requiredWaitCount(len(m.active), &s.spec.Cfg)
		have := 0
		if msv.SSMaster {
			have = msv.WaitCount
		}
		if have != want {
			probs = append(probs, fmt.Sprintf("master semi-sync wait count %d, active list %v implies %d", have, m.active, want))
		}
	} else if msv.SSMaster {
		probs = append(probs, "semi-sync master enabled although semi_sync is off")
	}
	for _, sv := range s.mysql.sorted() {
		if sv == msv || !sv.Registered || !sv.Up || !m.isHA(sv.Name) {
			continue
		}
		if !sv.ReadOnly {
			probs = append(probs, fmt.Sprintf("%s is writable", sv.Name))
		}
		perm := permanentErrnos[sv.LastSQLErrno] || permanentErrnos[sv.LastIOErrno] || permanentErrnos[sv.StickySQLErr] || permanentErrnos[sv.StickyIOErr]
		exhausted := sv.StickySQLErr != 0 || sv.StickyIOErr != 0 // error recurs whatever is tried: attempts get exhausted
		replicating := sv.HasChannel && sv.Source == master && sv.IORun && !sv.IOConnecting && sv.SQLRun
		// whatever the state of its threads, a replica is pointed at the recorded master
		if sv.HasChannel && sv.Source != master && !m.recovery[sv.Name] {
			probs = append(probs, fmt.Sprintf("%s not a running replica of %s (src=%s io=%v sql=%v ioerr=%d sqlerr=%d)", sv.Name, master, sv.Source, sv.IORun && !sv.IOConnecting, sv.SQLRun, sv.LastIOErrno, sv.LastSQLErrno))
			continue
		}
		if replicating || perm || exhausted {
			continue
		}
		if !sv.HasChannel || m.recovery[sv.Name] {
			// stale master: must be offline and marked for recovery (resetup is external)
			if !(sv.Offline && m.recovery[sv.Name]) && !sv.HasChannel {
				probs = append(probs, fmt.Sprintf("stale master %s: offline=%v recovery-mark=%v", sv.Name, sv.Offline, m.recovery[sv.Name]))
			}
			continue
		}
		probs = append(probs, fmt.Sprintf("%s not a running replica of %s (src=%s io=%v sql=%v ioerr=%d sqlerr=%d)", sv.Name, master, sv.Source, sv.IORun && !sv.IOConnecting, sv.SQLRun, sv.LastIOErrno, sv.LastSQLErrno))
	}
	if len(probs) == 0 {
		m.probe("c10_converged")
		return
	}
	sort.Strings(probs)
	cl := "not-converged"
	switch {
	case strings.Contains(probs[0], "is writable"):
		cl = "replica-left-writable"
	case strings.Contains(probs[0], "stale master"):
		cl = "stale-master-not-fenced"
	case strings.Contains(probs[0], "master "):
		cl = "master-not-restored"
	case strings.Contains(probs[0], "not a running replica"):
		cl = "replica-not-repaired"
	}
	m.violate("C10", "convergence", cl, strings.Join(probs, "; "))
}
