package verifsim

import "fmt"

func opSQL(sp *Spec, at *int64, host, q string) {
	sp.Timeline = append(sp.Timeline, TLEvent{AtMs: *at, Kind: "sql", Host: host, Arg: q})
	*at += 5
}

// family maintenance (C09)
func genMaintenance(r *rng, index int) *Spec {
	sp := baseSpec(r, shapeOpt{minHA: 3, maxHA: 4, cascade: 0.35})
	c := &sp.Cfg
	ha := sp.haNames()
	master := ha[0]
	light := index%3 == 2
	mode := "full"
	if light {
		mode = "light"
	}
	c.Failover = true
	c.FailoverDelayMs = int64(r.pickInt(0, 2000, 5000))
	c.FailoverCooldownMs = 0
	c.DisableSSOnMaint = index%2 == 0
	c.ForceSwitchover = false
	sp.World.AutoResetupMs = 0
	if r.chance(0.4) {
		sp.Hosts[0].StartDelayMs = 3500 // another host becomes the manager, the master's daemon is a candidate
	}
	T0 := int64(r.rangeInt(7000, 11000))
	from := ha[r.intn(len(ha))]
	var script []string
	// racing requests right before / at the entry
	switch r.intn(6) {
	case 0:
		sp.Timeline = append(sp.Timeline, TLEvent{AtMs: T0 - int64(r.pickInt(50, 800, 2500)), Kind: "cli_switch_to", Host: master, Arg: ha[1], DurMs: 30000})
		script = append(script, "switch_races_entry")
	case 1:
		sp.Timeline = append(sp.Timeline, TLEvent{AtMs: T0 - int64(r.pickInt(200, 2500)), Kind: "kill_mysql", Host: master, Fault: true, DurMs: int64(r.pickInt(0, 6000))})
		script = append(script, "master_dies_before_entry")
	}
	// coordination trouble right after the acknowledgement, before every daemon has seen it
	switch r.intn(7) {
	case 0:
		at := T0 + int64(r.pickInt(300, 900, 1500, 2500))
		d := int64(r.pickInt(6000, 12000, 20000))
		sp.Timeline = append(sp.Timeline, TLEvent{AtMs: at, Kind: "zk_down", Fault: true})
		sp.Timeline = append(sp.Timeline, TLEvent{AtMs: at + d, Kind: "zk_up"})
		script = append(script, fmt.Sprintf("zk_down_after_ack@+%dms", at-T0))
	case 1:
		at := T0 + int64(r.pickInt(300, 900, 1500, 2500))
		x := ha[r.intn(len(ha))]
		sp.Timeline = append(sp.Timeline, TLEvent{AtMs: at, Kind: "cut", Host: x, Host2: "zk", Arg: []string{"blackhole", "reject"}[r.intn(2)], Fault: true, DurMs: int64(r.pickInt(6000, 12000, 20000))})
		script = append(script, fmt.Sprintf("zk_cut_after_ack(%s)@+%dms", x, at-T0))
	case 2:
		at := T0 + int64(r.pickInt(300, 900, 1500, 2500))
		x := ha[r.intn(len(ha))]
		sp.Timeline = append(sp.Timeline, TLEvent{AtMs: at, Kind: "kill_daemon", Host: x, Fault: true, DurMs: int64(r.pickInt(100, 1500, 5000))})
		script = append(script, fmt.Sprintf("daemon_restart_after_ack(%s)@+%dms", x, at-T0))
	}
	sp.Timeline = append(sp.Timeline, TLEvent{AtMs: T0, Kind: "cli_maint_on", Host: from, Arg: mode, DurMs: int64(r.pickInt(0, 10000))})
	T := T0 + int64(r.pickInt(2500, 4000, 6000))
	nEv := r.rangeInt(1, 4)
	all := append([]string{}, ha...)
	for _, h := range sp.Hosts {
		if h.Role == "cascade" {
			all = append(all, h.Name)
		}
	}
	twoMasters := false
	moved := ""
	for i := 0; i < nEv; i++ {
		x := all[r.intn(len(all))]
		switch r.intn(13) {
		case 0, 1:
			d := int64(r.pickInt(0, 1500, 5000, 12000))
			sp.Timeline = append(sp.Timeline, TLEvent{AtMs: T, Kind: "kill_daemon", Host: x, Fault: true, DurMs: d})
			script = append(script, fmt.Sprintf("daemon_restart(%s)@%d+%d", x, T/1000, d/1000))
		case 2:
			d := int64(r.pickInt(2000, 6000, 15000))
			sp.Timeline = append(sp.Timeline, TLEvent{AtMs: T, Kind: "zk_down", Fault: true})
			sp.Timeline = append(sp.Timeline, TLEvent{AtMs: T + d, Kind: "zk_up"})
			script = append(script, fmt.Sprintf("zk_down@%d+%d", T/1000, d/1000))
			if r.chance(0.5) {
				// a daemon restarts in the middle of the outage
				sp.Timeline = append(sp.Timeline, TLEvent{AtMs: T + d/3, Kind: "kill_daemon", Host: x, Fault: true, DurMs: int64(r.pickInt(200, 1500))})
				script = append(script, fmt.Sprintf("daemon_restart_in_outage(%s)", x))
			}
		case 3:
			d := int64(r.pickInt(3000, 8000, 15000))
			sp.Timeline = append(sp.Timeline, TLEvent{AtMs: T, Kind: "cut", Host: x, Host2: "zk", Arg: []string{"blackhole", "reject"}[r.intn(2)], Fault: true, DurMs: d})
			script = append(script, fmt.Sprintf("zk_cut(%s)@%d+%d", x, T/1000, d/1000))
		case 4:
			d := int64(r.pickInt(0, 4000, 12000))
			sp.Timeline = append(sp.Timeline, TLEvent{AtMs: T, Kind: "kill_mysql", Host: master, Fault: true, DurMs: d})
			script = append(script, fmt.Sprintf("master_down@%d+%d", T/1000, d/1000))
		case 5:
			if moved == "" && !twoMasters {
				// the operator moves the master by hand
				nm := ha[1+r.intn(len(ha)-1)]
				at := T
				opSQL(sp, &at, nm, "STOP SLAVE FOR CHANNEL ''")
				opSQL(sp, &at, nm, "RESET SLAVE ALL FOR CHANNEL ''")
				opSQL(sp, &at, master, "SET GLOBAL super_read_only = 1")
				opSQL(sp, &at, nm, "SET GLOBAL read_only = 0")
				for _, h := range all {
					if h == nm {
						continue
					}
					if h != master {
						opSQL(sp, &at, h, "STOP SLAVE FOR CHANNEL ''")
					}
					opSQL(sp, &at, h, fmt.Sprintf("CHANGE MASTER TO MASTER_HOST = '%s', MASTER_AUTO_POSITION = 1 FOR CHANNEL ''", nm))
					opSQL(sp, &at, h, "START SLAVE FOR CHANNEL ''")
				}
				moved = nm
				script = append(script, fmt.Sprintf("operator_moves_master(%s)@%d", nm, T/1000))
			}
		case 6:
			if !twoMasters && moved == "" {
				// any registered replica, a cascade one as well
				nm := all[1+r.intn(len(all)-1)]
				if len(all) > len(ha) && r.chance(0.5) {
					nm = all[len(ha)+r.intn(len(all)-len(ha))]
				}
				at := T
				opSQL(sp, &at, nm, "STOP SLAVE FOR CHANNEL ''")
				opSQL(sp, &at, nm, "RESET SLAVE ALL FOR CHANNEL ''")
				if r.chance(0.5) {
					opSQL(sp, &at, nm, "SET GLOBAL read_only = 0")
				}
				twoMasters = true
				script = append(script, fmt.Sprintf("operator_makes_second_master(%s)@%d", nm, T/1000))
				if r.chance(0.5) {
					// ... and repairs it later
					at2 := T + int64(r.pickInt(15000, 30000))
					opSQL(sp, &at2, nm, "SET GLOBAL super_read_only = 1")
					opSQL(sp, &at2, nm, fmt.Sprintf("CHANGE MASTER TO MASTER_HOST = '%s', MASTER_AUTO_POSITION = 1 FOR CHANNEL ''", master))
					opSQL(sp, &at2, nm, "START SLAVE FOR CHANNEL ''")
					script = append(script, fmt.Sprintf("operator_repairs@%d", at2/1000))
				}
			}
		case 7:
			at := T
			q := []string{"STOP SLAVE FOR CHANNEL ''", "SET GLOBAL offline_mode = ON", "SET GLOBAL rpl_semi_sync_slave_enabled = 0, rpl_semi_sync_master_enabled = 0", "SET GLOBAL read_only = 0", "STOP SLAVE IO_THREAD FOR CHANNEL ''"}[r.intn(5)]
			y := ha[1+r.intn(len(ha)-1)]
			opSQL(sp, &at, y, q)
			script = append(script, fmt.Sprintf("operator(%s: %s)@%d", y, q, T/1000))
		case 8:
			to := ha[1+r.intn(len(ha)-1)]
			sp.Timeline = append(sp.Timeline, TLEvent{AtMs: T, Kind: "cli_switch_to", Host: master, Arg: to, DurMs: int64(r.pickInt(0, 20000))})
			script = append(script, fmt.Sprintf("switch_to(%s)@%d", to, T/1000))
		case 9:
			// operator-forced failover request
			sp.Timeline = append(sp.Timeline, TLEvent{AtMs: T, Kind: "cli_switch_from", Host: ha[1], Arg: master, DurMs: int64(r.pickInt(0, 20000)), N: 1})
			script = append(script, fmt.Sprintf("forced_failover_request@%d", T/1000))
		case 10:
			d := int64(r.pickInt(3000, 9000))
			sp.Timeline = append(sp.Timeline, TLEvent{AtMs: T, Kind: "isolate", Host: x, Fault: true, DurMs: d})
			script = append(script, fmt.Sprintf("isolate(%s)@%d+%d", x, T/1000, d/1000))
		case 11:
			sp.Timeline = append(sp.Timeline, TLEvent{AtMs: T, Kind: "kill_mysql", Host: ha[1+r.intn(len(ha)-1)], Fault: true, DurMs: int64(r.pickInt(0, 5000))})
			script = append(script, fmt.Sprintf("replica_down@%d", T/1000))
		case 12:
			sp.Timeline = append(sp.Timeline, TLEvent{AtMs: T, Kind: "zk_restart", Fault: true})
			script = append(script, fmt.Sprintf("zk_restart@%d", T/1000))
		}
		T += int64(r.pickInt(2000, 5000, 9000))
	}
	T1 := T + int64(r.pickInt(1000, 4000, 8000))
	switch r.intn(8) {
	case 0:
		script = append(script, "never_left")
	case 1:
		sp.Timeline = append(sp.Timeline, TLEvent{AtMs: T1, Kind: "zk_delete", Arg: "/test/maintenance"})
		script = append(script, fmt.Sprintf("record_deleted@%d", T1/1000))
	default:
		sp.Timeline = append(sp.Timeline, TLEvent{AtMs: T1, Kind: "cli_maint_off", Host: ha[r.intn(len(ha))], DurMs: int64(r.pickInt(0, 10000))})
		script = append(script, fmt.Sprintf("leave@%d", T1/1000))
	}
	if r.chance(0.15) {
		sp.Rates = RateSpec{FromMs: T0, ToMs: T1 + 5000, SQLErr: 0.006, SQLLost: 0.003, ZKReset: 0.004, ZKResetAfter: 0.004}
	}
	sp.Variant = fmt.Sprintf("mode=%s ss_off_on_entry=%v %v", mode, c.DisableSSOnMaint, script)
	sp.DurationMs = T1 + 30000 + 15*c.TickMs + 15000
	sp.Primary = []string{"C09"}
	return sp
}
