package verifsim

import "fmt"

type dev struct {
	name string
	init func(master, other, decoy string) *InitState
}

var repairDevs = []dev{
	{"writable", func(m, o, d string) *InitState { return &InitState{ReadOnly: pb(false)} }},
	{"offline", func(m, o, d string) *InitState { return &InitState{Offline: pb(true)} }},
	{"source_other_replica", func(m, o, d string) *InitState { return &InitState{Source: ps(o)} }},
	{"source_decoy", func(m, o, d string) *InitState { return &InitState{Source: ps(d)} }},
	{"stale_master", func(m, o, d string) *InitState { return &InitState{Source: ps(""), ReadOnly: pb(false)} }},
	{"stale_master_ro", func(m, o, d string) *InitState { return &InitState{Source: ps("")} }},
	{"stale_master_errant", func(m, o, d string) *InitState { return &InitState{Source: ps(""), ReadOnly: pb(false), ExtraTxns: 2} }},
	{"io_stopped", func(m, o, d string) *InitState { return &InitState{IO: pb(false)} }},
	{"sql_stopped", func(m, o, d string) *InitState { return &InitState{SQL: pb(false)} }},
	{"both_stopped", func(m, o, d string) *InitState { return &InitState{IO: pb(false), SQL: pb(false)} }},
	{"io_error_permanent", func(m, o, d string) *InitState { return &InitState{IOErrno: 1236} }},
	{"io_error_13114", func(m, o, d string) *InitState { return &InitState{IOErrno: 13114} }},
	{"sql_error_permanent", func(m, o, d string) *InitState { return &InitState{SQLErrno: 1146, BehindTxns: 2} }},
	{"sql_error_1062", func(m, o, d string) *InitState { return &InitState{SQLErrno: 1062, BehindTxns: 2} }},
	{"sql_error_1032", func(m, o, d string) *InitState { return &InitState{SQLErrno: 1032, BehindTxns: 1} }},
	{"ss_master_on_replica", func(m, o, d string) *InitState { return &InitState{SSMaster: pb(true), SSSlave: pb(false)} }},
	{"ss_slave_off", func(m, o, d string) *InitState { return &InitState{SSSlave: pb(false)} }},
	{"behind", func(m, o, d string) *InitState { return &InitState{BehindTxns: 3, IO: pb(false)} }},
	{"source_other_replica_io_error", func(m, o, d string) *InitState { return &InitState{Source: ps(o), IOErrno: 2003} }},
	{"source_decoy_sql_error", func(m, o, d string) *InitState { return &InitState{Source: ps(d), SQLErrno: 1062, BehindTxns: 1} }},
	{"source_other_replica_io_stopped", func(m, o, d string) *InitState { return &InitState{Source: ps(o), IO: pb(false)} }},
	{"writable_offline_stopped", func(m, o, d string) *InitState {
		return &InitState{ReadOnly: pb(false), Offline: pb(true), IO: pb(false), SQL: pb(false)}
	}},
}

var masterDevs = []dev{
	{"master_ok", func(m, o, d string) *InitState { return nil }},
	{"master_offline", func(m, o, d string) *InitState { return &InitState{Offline: pb(true)} }},
	{"master_ro", func(m, o, d string) *InitState { return &InitState{ReadOnly: pb(true)} }},
	{"master_ss_off", func(m, o, d string) *InitState { return &InitState{SSMaster: pb(false)} }},
	{"master_wait_count_9", func(m, o, d string) *InitState { return &InitState{SSMaster: pb(true), WaitCount: pi(9)} }},
	{"master_ss_slave_on", func(m, o, d string) *InitState { return &InitState{SSSlave: pb(true), SSMaster: pb(false)} }},
}

// family repair (C10)
func genRepair(r *rng, index int) *Spec {
	sp := baseSpec(r, shapeOpt{minHA: 3, maxHA: 4, cascade: 0.1})
	c := &sp.Cfg
	c.Failover = false
	c.AggressiveRepair = index%2 == 1
	c.RepairMaxAttempts = r.pickInt(1, 2, 3)
	c.RepairCooldownMs = int64(r.pickInt(5000, 10000, 20000))
	ha := sp.haNames()
	nDecoy := r.rangeInt(1, 2)
	for i := 0; i < nDecoy; i++ {
		sp.Hosts = append(sp.Hosts, HostSpec{Name: fmt.Sprintf("d%d", i+1), Role: "decoy"})
	}
	master := ha[0]
	grid := len(repairDevs) + len(masterDevs) - 1
	var label string
	if index < 2*grid {
		// one deviating server at a time, all values (reduced grid, enumerated)
		g := index / 2
		if g < len(repairDevs) {
			victim := 1 + r.intn(len(ha)-1)
			other := ha[1+(victim)%(len(ha)-1)]
			if other == ha[victim] {
				other = master
			}
			sp.hostSpecByName(ha[victim]).Init = repairDevs[g].init(master, other, "d1")
			label = repairDevs[g].name + "@" + ha[victim]
		} else {
			md := masterDevs[g-len(repairDevs)+1]
			sp.hostSpecByName(master).Init = md.init(master, "", "d1")
			label = md.name
		}
	} else {
		// sampled products
		for i := 1; i < len(ha); i++ {
			if r.chance(0.7) {
				d := repairDevs[r.intn(len(repairDevs))]
				other := ha[1+(i)%(len(ha)-1)]
				if other == ha[i] {
					other = master
				}
				sp.hostSpecByName(ha[i]).Init = d.init(master, other, "d1")
				label += d.name + "@" + ha[i] + " "
			}
		}
		if r.chance(0.4) {
			md := masterDevs[r.intn(len(masterDevs))]
			sp.hostSpecByName(master).Init = md.init(master, "", "d1")
			label += md.name
		}
		sp.Rates = RateSpec{FromMs: 2000, ToMs: 40000, SQLErr: []float64{0, 0.01, 0.03}[r.intn(3)], SQLLost: []float64{0, 0.005}[r.intn(2)], SQLHang: []float64{0, 0.005}[r.intn(2)], SQLSlow: 0.01}
	}
	// a deviating replica leaves the registry early in the run; in half of these runs its own
	// daemon is the manager
	if index >= 2*grid && index%5 == 0 {
		x := ha[1+r.intn(len(ha)-1)]
		if sp.hostSpecByName(x).Init == nil {
			sp.hostSpecByName(x).Init = repairDevs[[]int{7, 8, 9, 0}[r.intn(4)]].init(master, master, "d1")
		}
		if r.chance(0.5) {
			for i := range sp.Hosts {
				if sp.Hosts[i].Name == x {
					sp.Hosts[i].StartDelayMs = 30
				} else if sp.Hosts[i].Role != "decoy" {
					sp.Hosts[i].StartDelayMs = 2500
				}
			}
			label += " manager_on=" + x
		}
		sp.Timeline = append(sp.Timeline, TLEvent{AtMs: int64(r.pickInt(200, 5000, 9000)), Kind: "zk_delete", Arg: "/test/ha_nodes/" + x})
		label += " leaves_registry=" + x
	}
	sp.World.AutoResetupMs = 10000
	sp.World.PreConverged = true
	sp.HealAtMs = 40000
	sp.LivenessMs = sp.boundMs() + int64(c.RepairMaxAttempts+2)*c.RepairCooldownMs*2
	sp.DurationMs = sp.HealAtMs + sp.LivenessMs
	if c.AggressiveRepair && r.chance(0.5) {
		// a repair that consists of several statements fails at its last one
		for _, h := range ha[1:] {
			sp.StmtFail = append(sp.StmtFail, StmtFail{Host: h, Prefix: "START ", After: "CHANGE ", Errno: r.pickInt(1105, 2013, 1205), FromMs: 0, ToMs: sp.DurationMs})
		}
		label += " last_statement_of_reset_fails"
	}
	sp.Variant = fmt.Sprintf("%s aggressive=%v attempts=%d cooldown=%d semi=%v", label, c.AggressiveRepair, c.RepairMaxAttempts, c.RepairCooldownMs, c.SemiSync)
	sp.Primary = []string{"C10"}
	return sp
}
