package verifsim

import (
	"bytes"
	"fmt"
	"runtime"
	"runtime/pprof"
	"sort"
	"strconv"
	"strings"
)

// C20 (2): repeated iterations must not accumulate goroutines or open connections.
// Sampled at quiescent iteration ends of steady runs.
type orC20 struct {
	baseOracle
	gor   []int
	conns []int
	n     int
	// steady runs: goroutines per entry function (the function the goroutine was started with)
	byRoot []map[string]int
	buf    bytes.Buffer
}

// goroutinesByRoot counts the live goroutines of the code under test by the function they were
// started with; what a goroutine is doing at the moment does not change its class.
func (o *orC20) goroutinesByRoot() map[string]int {
	o.buf.Reset()
	if pprof.Lookup("goroutine").WriteTo(&o.buf, 1) != nil {
		return nil
	}
	res := map[string]int{}
	n, root, daemon := 0, "", false
	flush := func() {
		// only goroutines of living daemon processes (a finished command-line run is a process
		// that has exited: whatever it left behind is gone with it)
		if n > 0 && root != "" && daemon {
			res[root] += n
		}
		n, root, daemon = 0, "", false
	}
	for _, ln := range strings.Split(o.buf.String(), "\n") {
		switch {
		case strings.HasPrefix(ln, "# labels:"):
			if i := strings.Index(ln, `"verif_inc":"`); i >= 0 && strings.Contains(ln, `"verif_kind":"daemon"`) {
				inc := ln[i+len(`"verif_inc":"`):]
				if j := strings.Index(inc, `"`); j >= 0 {
					inc = inc[:j]
				}
				if d := o.m.s.daemons[inc]; d != nil && d.alive {
					daemon = true
				}
			}
		case strings.HasPrefix(ln, "#"):
			f := strings.Fields(ln)
			if len(f) >= 3 {
				root = f[2]
				if i := strings.LastIndex(root, "+0x"); i > 0 {
					root = root[:i]
				}
			}
		case strings.Contains(ln, " @ "):
			flush()
			n, _ = strconv.Atoi(strings.Fields(ln)[0])
		case ln == "":
			flush()
		}
	}
	flush()
	return res
}

func (o *orC20) name() string { return "C20" }

func (o *orC20) onIterLeave(it *iterRec) {
	o.n++
	if o.n%4 != 0 {
		return
	}
	g := runtime.NumGoroutine()
	if o.m.s.spec.World.Steady {
		// count what belongs to living daemon processes only: a finished command-line run is a
		// process that has exited, its logger goroutines stay behind in this one
		c := o.goroutinesByRoot()
		o.byRoot = append(o.byRoot, c)
		if c != nil {
			g = 0
			for _, n := range c {
				g += n
			}
		}
	}
	o.gor = append(o.gor, g)
	o.conns = append(o.conns, int(openConns.Load()))
}

func minOf(x []int) int {
	r := x[0]
	for _, v := range x {
		if v < r {
			r = v
		}
	}
	return r
}

func mean(x []int) float64 {
	if len(x) == 0 {
		return 0
	}
	s := 0
	for _, v := range x {
		s += v
	}
	return float64(s) / float64(len(x))
}

func (o *orC20) atEnd() {
	m := o.m
	st := m.s.stats
	// keep a thinned series in the evidence
	step := len(o.gor)/40 + 1
	for i := 0; i < len(o.gor); i += step {
		st.Goroutines = append(st.Goroutines, o.gor[i])
		st.OpenConns = append(st.OpenConns, o.conns[i])
	}
	if !m.s.spec.World.Steady || len(o.gor) < 40 {
		return
	}
	m.probe("c20_steady_run_measured")
	n := len(o.gor)
	// compare third quarter with fourth quarter and second with fourth: a leak grows in both
	q2, q3, q4 := o.gor[n/4:n/2], o.gor[n/2:3*n/4], o.gor[3*n/4:]
	c2, c3, c4 := o.conns[n/4:n/2], o.conns[n/2:3*n/4], o.conns[3*n/4:]
	if mean(q4)-mean(q3) > 8 && mean(q3)-mean(q2) > 8 {
		m.violate("C20", "growth", "goroutines-accumulate-in-steady-state", fmt.Sprintf("goroutines per quarter of the run: %.0f -> %.0f -> %.0f (%s)", mean(q2), mean(q3), mean(q4), m.s.spec.Variant))
	}
	// per entry function the quiescent level (minimum over a quarter of the run) must not climb
	roots := map[string]bool{}
	for _, x := range o.byRoot {
		for k := range x {
			roots[k] = true
		}
	}
	var names []string
	for k := range roots {
		names = append(names, k)
	}
	sort.Strings(names)
	for _, k := range names {
		ser := make([]int, len(o.byRoot))
		for i, x := range o.byRoot {
			ser[i] = x[k]
		}
		nn := len(ser)
		if nn < 40 {
			break
		}
		a, b, c := minOf(ser[nn/4:nn/2]), minOf(ser[nn/2:3*nn/4]), minOf(ser[3*nn/4:])
		if c > b && b > a && c-a >= 3 {
			m.violate("C20", "growth", "goroutines-accumulate-in-steady-state:"+k, fmt.Sprintf("goroutines started as %s: quiescent level per quarter of the run %d -> %d -> %d (%s)", k, a, b, c, m.s.spec.Variant))
		}
	}
	if mean(c4)-mean(c3) > 5 && mean(c3)-mean(c2) > 5 {
		m.violate("C20", "growth", "connections-accumulate-in-steady-state", fmt.Sprintf("open connections per quarter of the run: %.0f -> %.0f -> %.0f (%s)", mean(c2), mean(c3), mean(c4), m.s.spec.Variant))
	}
}
