package verifsim

import (
	"fmt"
	"runtime"
)

// C20 (2): repeated iterations must not accumulate goroutines or open connections.
// Sampled at quiescent iteration ends of steady runs.
type orC20 struct {
	baseOracle
	gor   []int
	conns []int
	n     int
}

func (o *orC20) name() string { return "C20" }

func (o *orC20) onIterLeave(it *iterRec) {
	o.n++
	if o.n%4 != 0 {
		return
	}
	o.gor = append(o.gor, runtime.NumGoroutine())
	o.conns = append(o.conns, int(openConns.Load()))
}

func mean(x []int) float64 {
	if len(x) == 0 {
		return 0
	}
	s := 0
	for _, v := range x {
		s += v
	}
	return float64(s) / float64(len(x))
}

func (o *orC20) atEnd() {
	m := o.m
	st := m.s.stats
	// keep a thinned series in the evidence
	step := len(o.gor)/40 + 1
	for i := 0; i < len(o.gor); i += step {
		st.Goroutines = append(st.Goroutines, o.gor[i])
		st.OpenConns = append(st.OpenConns, o.conns[i])
	}
	if !m.s.spec.World.Steady || len(o.gor) < 40 {
		return
	}
	m.probe("c20_steady_run_measured")
	n := len(o.gor)
	// compare third quarter with fourth quarter and second with fourth: a leak grows in both
	q2, q3, q4 := o.gor[n/4:n/2], o.gor[n/2:3*n/4], o.gor[3*n/4:]
	c2, c3, c4 := o.conns[n/4:n/2], o.conns[n/2:3*n/4], o.conns[3*n/4:]
	if mean(q4)-mean(q3) > 8 && mean(q3)-mean(q2) > 8 {
		m.violate("C20", "growth", "goroutines-accumulate-in-steady-state", fmt.Sprintf("goroutines per quarter of the run: %.0f -> %.0f -> %.0f (%s)", mean(q2), mean(q3), mean(q4), m.s.spec.Variant))
	}
	if mean(c4)-mean(c3) > 5 && mean(c3)-mean(c2) > 5 {
		m.violate("C20", "growth", "connections-accumulate-in-steady-state", fmt.Sprintf("open connections per quarter of the run: %.0f -> %.0f -> %.0f (%s)", mean(c2), mean(c3), mean(c4), m.s.spec.Variant))
	}
}
