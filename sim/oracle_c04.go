package verifsim

import (
	"fmt"
	"sort"
	"strings"
	"time"
)

// C04 - published active list covers every semi-sync acker and matches the ack count.
type orC04 struct {
	baseOracle
	atEnter       map[string][2]bool // per incarnation: (a),(b) when its current Manager iteration began (valid flag in third map)
	judged        map[string]bool
	lastMut       string
	lastOp        string // most recent mysync operation (classified)
	curA, curB    bool
	flipA, flipB  string // operation that turned (a)/(b) from true to false (cleared when true again)
	flipAHost     string
	prevList      []string
	notReplSince  map[string]time.Duration
	backlogAt     map[string]time.Duration // per host: last instant with a large download backlog
	divergedSince map[string]time.Duration // per host: since when it has executed transactions the master lacks
	firstEval     map[string]time.Duration // per host: start of the first membership evaluation while it was not replicating
	evalCount     map[string]int
	evalInc       string
}

func (o *orC04) name() string { return "C04" }

// eval returns (applicable, a, b, detail) on ground truth for manager incarnation inc
func (o *orC04) eval(inc string) (bool, bool, bool, string) {
	m := o.m
	s := m.s
	cfg := &s.spec.Cfg
	if !cfg.SemiSync {
		return false, true, true, ""
	}
	mst := s.mysql.servers[m.master]
	mgrHost := srcHostOf(inc)
	if mst == nil || !mst.Up || mst.ReadOnly || s.net.blocked(mgrHost, mst.Name) {
		return false, true, true, ""
	}
	a, b := true, true
	var det []string
	for _, sv := range s.mysql.sorted() {
		if sv == mst || !sv.Up || !sv.Registered || !m.isHA(sv.Name) || s.net.blocked(mgrHost, sv.Name) {
			continue
		}
		if (sv.SSSlave || (sv.SSSlaveEff && sv.IORun)) && !contains(m.active, sv.Name) {
			a = false
			det = append(det, fmt.Sprintf("%s has semi-sync slave on (var=%v eff=%v) but is not in active list %v", sv.Name, sv.SSSlave, sv.SSSlaveEff, m.active))
		}
	}
	need := requiredWaitCount(len(m.active), cfg)
	have := 0
	if mst.SSMaster {
		have = mst.WaitCount
	}
	if have < need {
		b = false
		det = append(det, fmt.Sprintf("master waits for %d acks, active list %v with configured %d implies %d", have, m.active, cfg.WaitSlaveCount, need))
	}
	return true, a, b, strings.Join(det, "; ")
}

func (o *orC04) onSQL(ev *SQLEvent) {
	if ev.Mutating && ev.Applied && o.m.isDaemon(ev.Src) {
		k := ev.Kind
		if strings.HasPrefix(k, "SET GLOBAL rpl_semi_sync_master_wait") {
			k = "set-wait-count"
		} else if strings.HasPrefix(k, "SET GLOBAL rpl_semi_sync_slave_enabled = 1") {
			k = "enable-semisync-slave"
		} else if strings.HasPrefix(k, "SET GLOBAL rpl_semi_sync_slave_enabled = 0") {
			k = "disable-semisync"
		} else if strings.HasPrefix(k, "SET GLOBAL rpl_semi_sync_master_enabled = 1") {
			k = "enable-semisync-master"
		}
		o.lastMut = k
		o.lastOp = k
		if !strings.HasPrefix(k, "SET GLOBAL") && !strings.Contains(k, "semisync") && k != "set-wait-count" {
			// normalise thread statements
			f := strings.Fields(k)
			if len(f) >= 3 {
				o.lastOp = strings.ToLower(f[0]) + "-" + strings.ToLower(strings.TrimSuffix(f[2], "_THREAD")) + "-thread"
				if f[2] == "FOR" {
					o.lastOp = strings.ToLower(f[0]) + "-replication"
				}
			}
		}
	}
}

func (o *orC04) trackRepl() {
	m := o.m
	s := m.s
	if o.notReplSince == nil {
		o.notReplSince = map[string]time.Duration{}
		o.firstEval = map[string]time.Duration{}
		o.evalCount = map[string]int{}
	}
	for _, sv := range s.mysql.sorted() {
		if !sv.Registered || sv.Name == m.master {
			delete(o.notReplSince, sv.Name)
			continue
		}
		// diverged (executed transactions, not of the master's uuid, which the master lacks): since when
		if mst := s.mysql.servers[m.master]; mst != nil && m.primary["C04"] && sv.Up {
			div := false
			if !sv.Executed.SubsetOf(mst.Holds()) {
				for _, g := range sv.Executed.Minus(mst.Holds()) {
					if g.UUID != mst.UUID {
						div = true
						break
					}
				}
			}
			if o.divergedSince == nil {
				o.divergedSince = map[string]time.Duration{}
			}
			if !div {
				delete(o.divergedSince, sv.Name)
			} else if _, ok := o.divergedSince[sv.Name]; !ok {
				o.divergedSince[sv.Name] = s.now()
			}
		}
		// download backlog (what the master has and the replica has not received), in bytes
		if mst := s.mysql.servers[m.master]; mst != nil && m.primary["C04"] && sv.Up && sv.HasChannel {
			var back int64
			if mst.Executed.Count() > sv.Holds().Count() {
				held := sv.Holds()
				for i := len(mst.Binlog) - 1; i >= 0 && i >= len(mst.Binlog)-400; i-- {
					if !held.Has(mst.Binlog[i].G) {
						back += mst.Binlog[i].Size
					}
				}
			}
			if back >= s.spec.Cfg.SemiSyncEnableLag/4 && back > 0 {
				if o.backlogAt == nil {
					o.backlogAt = map[string]time.Duration{}
				}
				o.backlogAt[sv.Name] = s.now()
			}
		}
		ok := sv.Up && sv.HasChannel && sv.Source == m.master && sv.IORun && !sv.IOConnecting && sv.SQLRun
		if ok {
			delete(o.notReplSince, sv.Name)
			delete(o.firstEval, sv.Name)
			delete(o.evalCount, sv.Name)
		} else if _, seen := o.notReplSince[sv.Name]; !seen {
			o.notReplSince[sv.Name] = s.now()
		}
	}
}

func (o *orC04) afterEvent() {
	o.trackRepl()
	m := o.m
	if m.lockOwner == "" || !m.primary["C04"] {
		return
	}
	ok, a, b, _ := o.eval(m.lockOwner)
	if !ok {
		return
	}
	if o.curA && !a {
		o.flipA = o.lastOp
	} else if a {
		o.flipA = ""
	}
	if o.curB && !b {
		o.flipB = o.lastOp
	} else if b {
		o.flipB = ""
	}
	o.curA, o.curB = a, b
	o.lastOp = "world"
}

func (o *orC04) onZK(e *ZKEvent) {
	m := o.m
	if e.Err == 0 && e.Path == "/test/active_nodes" && !m.isDaemon(e.Inc) && (e.Op == "set" || e.Op == "create") {
		o.prevList = parseStrList(e.Data) // initial / external content
	}
	if e.Err != 0 || e.Path != "/test/active_nodes" || !m.isDaemon(e.Inc) {
		return
	}
	if e.Op == "set" || e.Op == "create" {
		o.lastMut = "publish-active-nodes"
		o.lastOp = "publish-active-nodes"
		o.checkPublished(e)
	} else if e.Op == "delete" {
		o.lastMut = "delete-active-nodes"
	}
}

// membership rule for every published list
func (o *orC04) checkPublished(e *ZKEvent) {
	m := o.m
	s := m.s
	W := parseStrList(e.Data)
	m.probe("c04_active_list_published")
	// a write that only takes members out of the previous list before this iteration recomputed
	// the membership (SetRecovery during repair) is not a statement about the members it keeps
	shrinkOnly := false
	if it := m.iters[e.Inc]; it != nil && o.prevList != nil {
		recomputed := false
		for _, r := range it.reads {
			if r.path == "recovery" && r.op == "children" && r.seq <= e.Seq {
				recomputed = true
			}
		}
		if !recomputed {
			shrinkOnly = true
			for _, h := range W {
				if !contains(o.prevList, h) {
					shrinkOnly = false
				}
			}
		}
	}
	for _, h := range W {
		if h == m.master {
			continue
		}
		if shrinkOnly {
			m.probe("c04_shrink_only_write_before_recomputation")
			continue
		}
		// the switchover publishes before recording the new master: its candidate has no channel
		sv := s.mysql.servers[h]
		if m.switchRaw != "" && sv != nil && !sv.HasChannel {
			continue
		}
		if m.isCascade(h) && o.cascadeSince(h) < o.iterStart(e.Inc) {
			m.violate("C04", "member_cascade", "cascade-replica-in-active-list", fmt.Sprintf("%s published %s containing cascade replica %s", e.Inc, e.Data, h))
			m.violate("C16", "cascade_active", "cascade-replica-in-active-list", fmt.Sprintf("%s published %s containing cascade replica %s", e.Inc, e.Data, h))
		}
		if m.recovery[h] && m.recoverySince[h] < o.iterStart(e.Inc) {
			m.violate("C04", "member_recovery", "host-marked-for-recovery-in-active-list", fmt.Sprintf("%s published %s while recovery/%s exists", e.Inc, e.Data, h))
		}
		mst := s.mysql.servers[m.master]
		it := m.iters[e.Inc]
		if sv == nil || mst == nil || it == nil || m.switchRaw != "" || m.maintRaw != "" {
			continue
		}
		// diverged: holds transactions (not of the master's uuid) which the master lacks, since
		// before this iteration began
		probed := false
		for _, x := range it.sql {
			if x.Dst == h && x.Aux != "" && x.toldOK() {
				probed = true
			}
		}
		if since, div := o.divergedSince[h]; sv.Up && sv.lastWorldChange < it.startT && probed && div && since < it.startT {
			for _, g := range sv.Executed.Minus(mst.Holds()) {
				if g.UUID != mst.UUID {
					m.violate("C04", "member_diverged", "diverged-replica-in-active-list", fmt.Sprintf("%s published %s although %s holds %s which master %s lacks", e.Inc, e.Data, h, g, mst.Name))
					break
				}
			}
		}
		// not replicating from the master for longer than the inactivation delay - measured on the
		// manager's own clock: from the first of its iterations that evaluated the membership
		// while the host was (and stayed) not replicating
		if first, ok := o.firstEval[h]; ok {
			lim := ms(s.spec.Cfg.InactivationDelayMs) + 2*ms(s.spec.Cfg.TickMs) + ms(s.spec.Cfg.DBTimeoutMs)*2
			if it.startT-first > lim && o.evalCount[h] >= 3 {
				culprit := "replica-not-replicating-beyond-inactivation-delay-in-active-list"
				// the manager cannot reach the host, whose own daemon keeps a good health record in
				// ZooKeeper: calcActiveNodes deliberately keeps such a member
				if raw, ok := s.zk.get("/test/health/" + h); ok && strings.Contains(raw, `"ping_ok":true`) && s.net.blocked(srcHostOf(e.Inc), h) {
					culprit = "unreachable-member-kept-on-its-own-health-record"
				}
				// its threads run, but its source is another member (e.g. the old master, after the
				// replica missed the switchover): calcActiveNodes looks at the thread state only
				running := sv.IORun && sv.SQLRun && !sv.IOConnecting
				if !running {
					// ... or ran when this pass looked at it (the pass's own repair has stopped them since)
					for _, x := range it.sql {
						if x.Dst == h && x.Src == it.inc && x.Aux == "running" && x.toldOK() {
							running = true
						}
					}
				}
				if sv.Up && sv.HasChannel && running && sv.Source != m.master && (m.isHA(sv.Source) || m.isCascade(sv.Source)) {
					culprit = "replica-streaming-from-another-member-listed"
				}
				m.violate("C04", "member_not_replicating", culprit, fmt.Sprintf("%s published %s although %s has not been replicating from the master since before %v, %d membership evaluations ago (inactivation delay %dms)", e.Inc, e.Data, h, first, o.evalCount[h], s.spec.Cfg.InactivationDelayMs))
			}
		}
	}
	// members are evicted only while the manager can reach the master
	if it := m.iters[e.Inc]; it != nil && o.prevList != nil && m.switchRaw == "" {
		dropped := false
		for _, h := range o.prevList {
			if !contains(W, h) {
				dropped = true
			}
		}
		if dropped {
			m.probe("c04_eviction_published")
			answered := false
			for _, x := range it.sql {
				if x.Dst == m.master && x.toldOK() {
					answered = true
				}
			}
			// the master is gone at the moment of the write and the manager has not heard from it
			// since it last touched another server in this iteration
			if msv := s.mysql.servers[m.master]; answered && msv != nil && (!msv.Up || s.net.blocked(srcHostOf(e.Inc), m.master)) {
				var lastMut uint64
				for _, x := range it.sql {
					if x.Src == it.inc && x.Dst != m.master && x.Mutating && x.Seq <= e.Seq {
						lastMut = x.Seq
					}
				}
				heard := false
				for _, x := range it.sql {
					if x.Src == it.inc && x.Dst == m.master && x.toldOK() && x.Seq > lastMut && x.Seq <= e.Seq {
						heard = true
					}
				}
				if lastMut > 0 && !heard {
					m.probe("c04_eviction_with_master_gone")
					m.violate("C04", "evict_master_unreachable", "members-evicted-after-master-became-unreachable", fmt.Sprintf("%s shrank the active list %v -> %s while master %s is unreachable; it had not heard from the master since it changed the evicted replicas", e.Inc, o.prevList, e.Data, m.master))
				}
			}
			if !answered {
				m.violate("C04", "evict_master_unreachable", "members-evicted-while-master-unreachable", fmt.Sprintf("%s shrank the active list %v -> %s in an iteration in which master %s never answered it", e.Inc, o.prevList, e.Data, m.master))
			}
		}
	}
	o.prevList = W
}

func (o *orC04) onIterEnter(it *iterRec) {
	if it.state != "Manager" {
		return
	}
	if o.atEnter == nil {
		o.atEnter = map[string][2]bool{}
		o.judged = map[string]bool{}
	}
	ok, a, b, _ := o.eval(it.inc)
	m := o.m
	o.judged[it.inc] = ok && m.maintRaw == "" && m.switchRaw == ""
	o.atEnter[it.inc] = [2]bool{a, b}
	o.lastMut = ""
}

func (o *orC04) onIterLeave(it *iterRec) {
	if it.state != "Manager" || o.atEnter == nil {
		return
	}
	m := o.m
	// membership evaluations of the current manager (calcActiveNodes starts by listing /recovery)
	if it.inc != o.evalInc {
		o.evalInc = it.inc
		o.firstEval = map[string]time.Duration{}
		o.evalCount = map[string]int{}
	}
	// a pass that found a pending switch or maintenance request does not evaluate the membership
	// (the switchover procedure lists /recovery for its own purposes)
	pendingReq := false
	for _, r := range it.reads {
		if (r.path == "switch" || r.path == "maintenance") && r.op == "get" && r.err == 0 {
			pendingReq = true
		}
	}
	for _, r := range it.reads {
		if pendingReq {
			break
		}
		if r.path == "recovery" && r.op == "children" {
			for h, since := range o.notReplSince {
				// the host's own health record must have had time to turn bad (or expire) too:
				// while it still reports itself healthy the manager rightly distrusts its own probe
				if since+2*ms(m.s.spec.Cfg.HealthMs)+ms(m.s.spec.Cfg.SessionTimeoutMs) < it.startT {
					if _, ok := o.firstEval[h]; !ok {
						o.firstEval[h] = it.startT
					}
					o.evalCount[h]++
				}
			}
			break
		}
	}
	ok, a, b, det := o.eval(it.inc)
	if !ok || m.maintRaw != "" || m.switchRaw != "" {
		return
	}
	// reads of the iteration tell whether it was exempt itself
	for _, r := range it.reads {
		if (r.path == "switch" || r.path == "maintenance") && r.op == "get" && r.err == 0 {
			return
		}
	}
	before := o.atEnter[it.inc]
	cut := it.next == "<killed>"
	kind := "completed"
	if cut {
		kind = "crashed"
	} else if it.faults > 0 {
		kind = "failed-call"
	}
	if o.judged[it.inc] {
		m.probe("c04_iteration_judged_" + kind)
		if before[0] && !a && o.flipA != "" && o.flipA != "world" {
			culprit := "coverage-destroyed:by=" + o.flipA
			switch o.flipA {
			case "enable-semisync-slave":
				culprit = "replica-acks-before-published"
			case "publish-active-nodes":
				culprit = "published-list-omits-semisync-replica:" + kind
				if o.onlyStaleEffective() {
					// the replica's variable is off, only its running IO thread still acknowledges
					culprit = "replica-keeps-acking-after-variable-switched-off:" + kind
				}
			}
			m.violate("C04", "a_destroyed", culprit, fmt.Sprintf("%s %s iteration: (a) held before it, after it: %s", it.inc, kind, det))
		}
		if before[1] && !b && o.flipB != "" && o.flipB != "world" {
			culprit := "ack-count-lowered-before-list-shrunk:by=" + o.flipB
			if kind == "completed" {
				culprit = "completed-iteration-ack-count-below-list:by=" + o.flipB
				if o.laggingListed() {
					culprit = "listed-replica-without-semisync-not-counted:by=" + o.flipB
				}
			}
			m.violate("C04", "b_destroyed", culprit, fmt.Sprintf("%s %s iteration: (b) held before it, after it: %s", it.inc, kind, det))
		}
	}
	// post-condition of an undisturbed completed iteration that reached the update
	if !cut && it.faults == 0 && it.next == "Manager" && it.ownedLock {
		reached := false
		allOK := true
		for _, e := range it.sql {
			if e.Src == it.inc && !e.toldOK() {
				allOK = false
			}
		}
		for _, r := range it.reads {
			if r.path == "recovery" && r.op == "children" { // calcActiveNodes starts with the recovery list
				reached = true
			}
		}
		if reached && allOK {
			m.probe("c04_postcondition_checked")
			if !a || !b {
				cl := "a"
				if a {
					cl = "b"
				}
				culprit := "completed-iteration-left-invariant-" + cl + "-false"
				if cl == "b" && o.laggingListed() {
					culprit = "listed-replica-without-semisync-not-counted"
				}
				if cl == "a" && o.onlyStaleEffective() {
					culprit = "replica-keeps-acking-after-variable-switched-off"
				}
				m.violate("C04", "post_"+cl, culprit, fmt.Sprintf("%s completed an undisturbed iteration with master healthy but: %s", it.inc, det))
			}
		}
	}
}

// onlyStaleEffective: every replica breaking (a) has its semi-sync variable off and only the
// state of its running IO thread (set when the thread started) still on - the signature of a
// disable whose IO-thread restart did not happen
func (o *orC04) onlyStaleEffective() bool {
	m := o.m
	s := m.s
	mst := s.mysql.servers[m.master]
	found := false
	for _, sv := range s.mysql.sorted() {
		if sv == mst || !sv.Up || !sv.Registered || !m.isHA(sv.Name) || contains(m.active, sv.Name) {
			continue
		}
		if sv.SSSlave {
			return false
		}
		if sv.SSSlaveEff && sv.IORun {
			found = true
		}
	}
	return found
}

// laggingListed: a member of the published list (other than the master) whose semi-sync slave flag is
// off - the signature of the deliberate "data lagging replicas do not count" rule
// laggingListed: a listed replica without semi-sync which has been far behind in download (a
// good part of semi_sync_enable_lag) during the last passes - the case mysync deliberately lists
// without counting. A listed replica without semi-sync that was never behind is another matter.
func (o *orC04) laggingListed() bool {
	m := o.m
	cfg := &m.s.spec.Cfg
	for _, h := range m.active {
		if h == m.master {
			continue
		}
		if sv := m.s.mysql.servers[h]; sv != nil && sv.Up && !sv.SSSlave {
			if at, ok := o.backlogAt[h]; ok && m.s.now()-at <= 3*ms(cfg.TickMs)+2*time.Second {
				return true
			}
		}
	}
	return false
}

func orNone(s string) string {
	if s == "" {
		return "none"
	}
	return s
}

var _ = sort.Strings

// cascadeSince: when the host was (last) registered as a cascade replica
func (o *orC04) cascadeSince(h string) time.Duration {
	var t time.Duration
	for i := range o.m.s.zk.log {
		e := &o.m.s.zk.log[i]
		if e.Err == 0 && e.Path == "/test/cascade_nodes/"+h && (e.Op == "create" || (e.Op == "set" && t == 0)) {
			t = e.T
		}
	}
	return t
}

func (o *orC04) iterStart(inc string) time.Duration {
	if it := o.m.iters[inc]; it != nil && it.open {
		return it.startT
	}
	return o.m.s.now()
}
