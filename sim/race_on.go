//go:build race

package verifsim

import "runtime"

func raceDisable() { runtime.RaceDisable() }
func raceEnable()  { runtime.RaceEnable() }
