//go:build race

package verifsim

import "runtime"

func raceDisable() { runtime.RaceDisable() }
func raceEnable()  { runtime.RaceEnable() }

// race builds are several times slower and spend long stretches printing reports
const watchdogScale = 8
