package verifsim

import (
	"encoding/json"
	"fmt"
	"os"
	"path/filepath"
	"strings"
	"time"

	"github.com/yandex/mysync/internal/app"
)

// world construction ----------------------------------------------------------------------

func uuidFor(i int) string { return fmt.Sprintf("%08d-0000-0000-0000-%012d", i+1, i+1) }

func (s *Sim) hostSpec(name string) *HostSpec {
	for i := range s.spec.Hosts {
		if s.spec.Hosts[i].Name == name {
			return &s.spec.Hosts[i]
		}
	}
	return nil
}

func (s *Sim) haHosts() []string {
	var r []string
	for _, h := range s.spec.Hosts {
		if h.Role == "ha" {
			r = append(r, h.Name)
		}
	}
	return r
}

func (s *Sim) buildWorld() {
	sp := s.spec
	w := s.mysql
	w.version = sp.World.MySQLVersion
	if w.version[0] == 0 {
		w.version = [3]int{8, 0, 32}
	}
	// first HA host is the initial master
	var master *Server
	for i, h := range sp.Hosts {
		sv := w.addServer(h.Name, uuidFor(i), h.Role != "decoy")
		if master == nil && h.Role == "ha" {
			master = sv
		}
	}
	txnSize := sp.World.TxnSize
	if txnSize == 0 {
		txnSize = 1000
	}
	for i := 0; i < sp.World.InitialTxns; i++ {
		t := Txn{G: GTID{master.UUID, int64(i + 1)}, Size: txnSize, At: 0, Client: "init"}
		master.appendBinlog(t)
		master.Executed.Add(t.G)
	}
	master.ReadOnly, master.SuperRO = false, false
	nHA := 0
	for _, h := range sp.Hosts {
		if h.Role == "ha" {
			nHA++
		}
	}
	for _, h := range sp.Hosts {
		sv := w.servers[h.Name]
		os.WriteFile(filepath.Join(s.hostDir(h.Name), "disk_usage"), []byte("10"), 0o644)
		os.WriteFile(filepath.Join(s.hostDir(h.Name), "fs_readonly"), []byte("false"), 0o644)
		sv.DiskPct = 10
		if sv != master {
			for _, t := range master.Binlog {
				sv.appendBinlog(t)
				sv.Executed.Add(t.G)
			}
			if h.Role != "decoy" {
				sv.HasChannel = true
				sv.Source = master.Name
				if h.Role == "cascade" && h.StreamFrom != "" {
					sv.Source = h.StreamFrom
				}
				sv.IORun, sv.SQLRun = true, true
				sv.fetchIdx = len(master.Binlog)
				sv.fetchSrcEp = 1
			}
		}
		if sp.World.PreConverged && sp.Cfg.SemiSync && h.Role == "ha" {
			if sv == master {
				wc := nHA / 2
				if wc > sp.Cfg.WaitSlaveCount {
					wc = sp.Cfg.WaitSlaveCount
				}
				if wc > 0 {
					sv.SSMaster = true
					sv.WaitCount = wc
				}
			} else {
				sv.SSSlave, sv.SSSlaveEff = true, true
			}
		}
		if h.Init != nil {
			s.applyInit(sv, master, h.Init)
		}
	}
	// registry znodes
	z := s.zk
	z.rawSet("/test", "")
	z.rawSet("/test/ha_nodes", "")
	z.rawSet("/test/cascade_nodes", "")
	var active []string
	for _, h := range sp.Hosts {
		switch h.Role {
		case "ha":
			z.rawSet("/test/ha_nodes/"+h.Name, fmt.Sprintf(`{"priority":%d}`, h.Priority))
			active = append(active, h.Name)
		case "cascade":
			z.rawSet("/test/cascade_nodes/"+h.Name, fmt.Sprintf(`{"stream_from":%q}`, h.StreamFrom))
		}
	}
	if sp.World.PreConverged {
		z.rawSet("/test/master", fmt.Sprintf("%q", master.Name))
		b, _ := json.Marshal(active)
		z.rawSet("/test/active_nodes", string(b))
	}
}

func (s *Sim) applyInit(sv, master *Server, in *InitState) {
	if in.Source != nil {
		if *in.Source == "" {
			sv.HasChannel, sv.Source, sv.IORun, sv.SQLRun = false, "", false, false
		} else {
			sv.HasChannel, sv.Source = true, *in.Source
			sv.fetchIdx, sv.fetchSrcEp = 0, 0
		}
	}
	if in.ReadOnly != nil {
		sv.ReadOnly, sv.SuperRO = *in.ReadOnly, *in.ReadOnly
	}
	if in.Offline != nil {
		sv.Offline = *in.Offline
	}
	if in.IO != nil {
		sv.IORun = *in.IO && sv.HasChannel
	}
	if in.SQL != nil {
		sv.SQLRun = *in.SQL && sv.HasChannel
	}
	if in.IOErrno != 0 {
		sv.IORun = false
		sv.LastIOErrno = in.IOErrno
		sv.LastIOError = "injected"
		if in.IOErrno == 1236 || in.IOErrno == 13114 {
			sv.StickyIOErr = in.IOErrno
		}
	}
	if in.SQLErrno != 0 {
		sv.SQLRun = false
		sv.LastSQLErrno = in.SQLErrno
		sv.LastError = "injected"
		sv.StickySQLErr = in.SQLErrno
	}
	if in.SSMaster != nil {
		sv.SSMaster = *in.SSMaster
	}
	if in.SSSlave != nil {
		sv.SSSlave = *in.SSSlave
		sv.SSSlaveEff = *in.SSSlave && sv.IORun
	}
	if in.WaitCount != nil {
		sv.WaitCount = *in.WaitCount
	}
	for i := 0; i < in.ExtraTxns; i++ {
		t := Txn{G: GTID{sv.UUID, sv.nextSeq()}, Size: 1000, Client: "errant"}
		sv.appendBinlog(t)
		sv.Executed.Add(t.G)
	}
	for i := 0; i < in.BehindTxns && len(sv.Binlog) > 0; i++ {
		t := sv.Binlog[len(sv.Binlog)-1]
		sv.Binlog = sv.Binlog[:len(sv.Binlog)-1]
		sv.BinlogSet.Remove(t.G)
		sv.Executed.Remove(t.G)
		sv.fetchIdx = 0
		sv.fetchSrcEp = 0
	}
	if in.ApplyDelayMs > 0 {
		sv.ApplyDelay = ms(in.ApplyDelayMs)
	}
	if in.FlushLog != 0 {
		sv.FlushLog = in.FlushLog
	}
	if in.SyncBinlog != 0 {
		sv.SyncBinlog = in.SyncBinlog
	}
	if in.DiskPct != 0 {
		s.setDisk(sv.Name, in.DiskPct)
	}
	if in.Down {
		sv.Up = false
	}
}

// timeline ---------------------------------------------------------------------------------

func (s *Sim) scheduleTimeline() {
	for i := range s.spec.Timeline {
		ev := s.spec.Timeline[i]
		s.at(ms(ev.AtMs), "tl:"+ev.Kind, func() { s.execTL(&ev) })
	}
}

func (s *Sim) isolate(host, mode string, on bool) {
	m := ""
	if on {
		m = mode
	}
	for _, h := range s.spec.Hosts {
		if h.Name != host {
			s.net.setBlock(host, h.Name, m)
		}
	}
	s.net.setBlock(host, "zk", m)
	s.net.setBlock(host, "client", m)
	s.net.setBlock(host, "op", m)
	if on && mode == "reject" {
		s.net.resetConnsOf(func(c *memConn) bool { return c.host == host })
	}
	if !on {
		s.net.flushHeld()
	}
}

func (s *Sim) execTL(ev *TLEvent) {
	s.trace("TL %s host=%s host2=%s arg=%s arg2=%s n=%d dur=%d", ev.Kind, ev.Host, ev.Host2, ev.Arg, ev.Arg2, ev.N, ev.DurMs)
	if ev.Fault {
		s.stats.Faults["tl:"+ev.Kind]++
		s.mon.onFault("tl:"+ev.Kind, ev.Host)
	}
	sv := s.mysql.servers[ev.Host]
	if sv != nil && !strings.HasPrefix(ev.Kind, "cli_") {
		sv.lastWorldChange = s.now()
	}
	switch ev.Kind {
	case "kill_daemon":
		if d := s.liveByHost[ev.Host]; d != nil {
			s.killDaemon(d, false)
		}
		if ev.DurMs > 0 {
			s.after(ms(ev.DurMs), "restart-daemon", func() { s.startDaemon(ev.Host) })
		}
	case "stop_daemon": // SIGTERM
		if d := s.liveByHost[ev.Host]; d != nil {
			s.killDaemon(d, true)
		}
		if ev.DurMs > 0 {
			s.after(ms(ev.DurMs), "restart-daemon", func() { s.startDaemon(ev.Host) })
		}
	case "start_daemon":
		s.startDaemon(ev.Host)
	case "kill_mysql":
		if sv != nil {
			s.mysql.crashServer(sv, int(ev.N))
			s.stats.Faults["mysql_crash"]++
			if ev.Arg == "crash_recovery" {
				s.writeErrorLog(ev.Host, true)
			}
		}
		if ev.DurMs > 0 {
			s.after(ms(ev.DurMs), "restart-mysql", func() { s.mysql.startServer(sv) })
		}
	case "start_mysql":
		if sv != nil {
			s.mysql.startServer(sv)
		}
	case "kill_host":
		if sv != nil {
			s.mysql.crashServer(sv, int(ev.N))
		}
		if d := s.liveByHost[ev.Host]; d != nil {
			s.killDaemon(d, false)
		}
		if ev.Arg == "crash_recovery" {
			s.writeErrorLog(ev.Host, true)
		}
		s.stats.Faults["host_crash"]++
		if ev.DurMs > 0 {
			s.after(ms(ev.DurMs), "restart-host", func() {
				s.mysql.startServer(sv)
				s.startDaemon(ev.Host)
			})
		}
	case "isolate": // Arg: blackhole|reject
		mode := ev.Arg
		if mode == "" {
			mode = "blackhole"
		}
		s.isolate(ev.Host, mode, true)
		s.stats.Faults["isolate_"+mode]++
		if ev.DurMs > 0 {
			s.after(ms(ev.DurMs), "heal", func() { s.isolate(ev.Host, mode, false) })
		}
	case "cut": // cut link Host <-> Host2 (Host2 may be "zk")
		mode := ev.Arg
		if mode == "" {
			mode = "blackhole"
		}
		s.net.setBlock(ev.Host, ev.Host2, mode)
		if ev.Host2 == "zk" && mode == "reject" {
			s.net.resetConnsOf(func(c *memConn) bool { return c.host == ev.Host })
		}
		s.stats.Faults["cut_"+mode]++
		if ev.DurMs > 0 {
			s.after(ms(ev.DurMs), "heal", func() {
				s.net.setBlock(ev.Host, ev.Host2, "")
				s.net.flushHeld()
			})
		}
	case "heal_all":
		s.net.block = map[string]string{}
		s.net.flushHeld()
	case "zk_down":
		s.net.zkDown = true
		s.net.resetConnsOf(func(c *memConn) bool { return true })
		s.stats.Faults["zk_down"]++
		if ev.DurMs > 0 {
			s.after(ms(ev.DurMs), "zk-up", func() { s.zkUp() })
		}
	case "zk_up":
		s.zkUp()
	case "zk_restart":
		s.net.resetConnsOf(func(c *memConn) bool { return true })
		for _, ss := range s.zk.sessions {
			ss.lastHeard = s.now()
		}
		s.stats.Faults["zk_restart"]++
	case "zk_set":
		s.zk.rawSet(ev.Arg, ev.Arg2)
	case "zk_delete":
		s.zk.rawDelete(ev.Arg)
	case "sql": // operator statement on Host
		if sv != nil && sv.Up {
			c := &call{src: "op:operator", dst: ev.Host, query: normQuery(ev.Arg), connID: -1}
			before := sv.stateSig()
			res, _ := s.mysql.exec(sv, c)
			e := &SQLEvent{Seq: s.evSeq, T: s.now(), Src: c.src, Dst: ev.Host, Kind: queryKind(c.query), Query: c.query, Mutating: true, Applied: true, Before: before, After: sv.stateSig()}
			e.Effective = e.Before != e.After
			if res.err != nil {
				e.Err = res.err.Error()
			}
			s.mon.onSQL(e)
		}
	case "disk":
		s.setDisk(ev.Host, int(ev.N))
	case "fs_ro":
		s.setFSRO(ev.Host, ev.N != 0)
	case "apply_delay":
		if sv != nil {
			sv.ApplyDelay = ms(ev.N)
		}
	case "fetch_bytes":
		if sv != nil {
			sv.FetchBytes = ev.N
		}
	case "errant_txn":
		if sv != nil && sv.Up {
			for i := int64(0); i < max64(ev.N, 1); i++ {
				t := Txn{G: GTID{sv.UUID, sv.nextSeq()}, Size: 1000, At: s.now(), Client: "errant"}
				sv.appendBinlog(t)
				sv.Executed.Add(t.G)
				s.trace("ERRANT %s %s", sv.Name, t.G)
			}
		}
	case "big_txn": // one large transaction on the current writable master
		for _, x := range s.mysql.sorted() {
			if x.Up && !x.ReadOnly && x.Registered {
				s.mysql.commit(x, "client:big", ev.N, func(o string, g GTID) { s.mon.onCommitResult("client:big", x, g, o) })
				break
			}
		}
	case "repl_error":
		if sv != nil {
			if ev.Arg == "io" {
				sv.StickyIOErr = int(ev.N)
			} else {
				sv.StickySQLErr = int(ev.N)
				// make sure there is something to apply so that the error shows
				sv.SQLRun = false
				sv.LastSQLErrno = int(ev.N)
				sv.LastError = "injected"
			}
		}
	case "repl_fix":
		if sv != nil {
			sv.StickyIOErr, sv.StickySQLErr = 0, 0
		}
	case "lock_session": // N application sessions take locks that block SET GLOBAL read_only until killed
		if sv != nil && sv.Up {
			for i := int64(0); i < ev.N; i++ {
				sv.Blockers = append(sv.Blockers, 9000+len(sv.Blockers))
			}
		}
	case "lag": // scripted replication lag in seconds (custom replication_lag query); N<0 = NULL/unknown
		if sv != nil {
			sv.LagNull = ev.N == -2
			if ev.N < 0 {
				sv.LagOverride = nil
			} else {
				v := float64(ev.N)
				sv.LagOverride = &v
			}
		}
	case "lag_null_once":
		if sv != nil {
			sv.LagNullOnce = true
		}
	case "events":
		if sv != nil {
			sv.events = append(sv.events, slaveEvent{"db1", "ev1", "user@host"})
		}
	case "touch_resetup":
		os.WriteFile(filepath.Join(s.hostDir(ev.Host), "resetup"), []byte{}, 0o644)
	case "resetup": // external tooling rebuilds the host as an empty replica of the recorded master
		s.doResetup(ev.Host)
	case "cli_switch_to":
		s.runCLI(ev.Host, "switch --to "+ev.Arg, func(a *app.App) int { return a.CliSwitch("", ev.Arg, ms(ev.DurMs), ev.N != 0) })
	case "cli_switch_from":
		s.runCLI(ev.Host, "switch --from "+ev.Arg, func(a *app.App) int { return a.CliSwitch(ev.Arg, "", ms(ev.DurMs), ev.N != 0) })
	case "cli_maint_on":
		mode := app.FullMode
		if ev.Arg == "light" {
			mode = app.LightMode
		}
		s.runCLI(ev.Host, "maint on "+ev.Arg, func(a *app.App) int { return a.CliEnableMaintenance(ms(ev.DurMs), "test", mode) })
	case "cli_maint_off":
		s.runCLI(ev.Host, "maint off", func(a *app.App) int { return a.CliDisableMaintenance(ms(ev.DurMs)) })
	case "cli_host_add":
		var sf *string
		if ev.Arg2 != "-" {
			v := ev.Arg2
			sf = &v
		}
		s.runCLI(ev.Host, "host add "+ev.Arg, func(a *app.App) int { return a.CliHostAdd(ev.Arg, sf, nil, false, ev.N != 0) })
	case "cli_host_remove":
		s.runCLI(ev.Host, "host remove "+ev.Arg, func(a *app.App) int { return a.CliHostRemove(ev.Arg) })
	case "cli_opt_on":
		s.runCLI(ev.Host, "optimize on", func(a *app.App) int { return a.CliEnableOptimization() })
	case "cli_opt_off":
		s.runCLI(ev.Host, "optimize off", func(a *app.App) int { return a.CliDisableOptimization() })
	case "cli_opt_off_all":
		s.runCLI(ev.Host, "optimize off --all", func(a *app.App) int { return a.CliDisableAllOptimization() })
	case "abort_switch": // what CliAbort does after the operator typed the confirmation
		s.zk.rawDelete("/test/switch")
	case "rates_off":
		s.spec.Rates.ToMs = 0
	default:
		panic("verifsim: unknown timeline kind " + ev.Kind)
	}
}

func max64(a, b int64) int64 {
	if a > b {
		return a
	}
	return b
}

func (s *Sim) zkUp() {
	s.net.zkDown = false
	for _, ss := range s.zk.sessions {
		ss.lastHeard = s.now()
	}
}

func (s *Sim) writeErrorLog(host string, crashRecovery bool) {
	p := filepath.Join(s.hostDir(host), "error.log")
	if crashRecovery {
		// far in the future relative to any real process start time
		os.WriteFile(p, []byte("2100-01-01T00:00:00.000000+00:00 0 [Note] [MY-012551] [InnoDB] Starting crash recovery.\n"), 0o644)
	} else {
		os.WriteFile(p, []byte("2000-01-01T00:00:00.000000+00:00 0 [Note] ready for connections\n"), 0o644)
	}
}

func (s *Sim) recordedMaster() string {
	v, ok := s.zk.get("/test/master")
	if !ok {
		return ""
	}
	return strings.Trim(v, `"`)
}

func (s *Sim) doResetup(host string) {
	sv := s.mysql.servers[host]
	m := s.mysql.servers[s.recordedMaster()]
	if sv == nil || m == nil || sv == m {
		return
	}
	sv.Up = true
	sv.Epoch++
	sv.StartedAt = s.now()
	sv.conns = map[int64]bool{}
	sv.Binlog = append([]Txn(nil), m.Binlog...)
	sv.BinlogSet = m.BinlogSet.Clone()
	sv.Executed = m.BinlogSet.Clone()
	sv.Relay, sv.Retrieved = nil, GTIDSet{}
	sv.HasChannel, sv.Source = true, m.Name
	sv.IORun, sv.SQLRun, sv.IOConnecting = true, true, false
	sv.fetchIdx, sv.fetchSrcEp = 0, 0
	sv.ReadOnly, sv.SuperRO, sv.Offline = true, true, true
	sv.SSMaster, sv.SSSlave, sv.SSSlaveEff = false, false, false
	sv.LastIOErrno, sv.LastSQLErrno, sv.LastError, sv.LastIOError = 0, 0, "", ""
	sv.StickyIOErr, sv.StickySQLErr = 0, 0
	sv.waiters = nil
	s.removeFile(host, "resetup")
	s.trace("RESETUP-DONE %s", host)
}

var _ = time.Second
