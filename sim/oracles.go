package verifsim

import "fmt"

func installOracles(m *Monitors) {
	finalProp := "C02"
	if m.primary["C07"] {
		finalProp = "C07"
	}
	if m.primary["C10"] {
		finalProp = "C10x" // the repair family judges convergence with its own (exemption-aware) oracle
	}
	m.final = &finalOracle{baseOracle: baseOracle{m}, prop: finalProp}
	m.oracles = []oracle{
		&orC02{baseOracle: baseOracle{m}},
		m.final,
		&orC01{baseOracle: baseOracle{m}},
		&orC03A{baseOracle: baseOracle{m}},
		&orC04{baseOracle: baseOracle{m}},
		&orC05{baseOracle: baseOracle{m}},
		&orC06{baseOracle: baseOracle{m}},
		&orC08{baseOracle: baseOracle{m}},
		&orC09{baseOracle: baseOracle{m}},
		&orC10{baseOracle: baseOracle{m}},
		&orC11{baseOracle: baseOracle{m}},
		&orC16{baseOracle: baseOracle{m}},
		&orC17{baseOracle: baseOracle{m}},
		&orC18{baseOracle: baseOracle{m}},
		&orC19{baseOracle: baseOracle{m}},
		&orC20{baseOracle: baseOracle{m}},
	}
}

// ---------------------------------------------------------------- C02: ack linearity + final state

type orC02 struct {
	baseOracle
}

func (o *orC02) name() string { return "C02" }

func (o *orC02) onAck(a *ackRec) {
	m := o.m
	if !m.s.spec.Cfg.SemiSync {
		return
	}
	// only where the scenario starts from a sane cluster (perturbed initial states of the
	// repair/offline/disk families legitimately contain a second writable node)
	if !(m.primary["C01"] || m.primary["C02"] || m.primary["C07"] || m.primary["C11"] || m.primary["C09"] || m.primary["C20"]) {
		return
	}
	sv := m.s.mysql.servers[a.server]
	if sv == nil {
		return
	}
	if !m.acked.SubsetOf(sv.Holds()) {
		missing := m.acked.Minus(sv.Holds())
		m.violate("C02", "ack_linearity", "ack-by-node-lacking-earlier-acked-txn",
			fmt.Sprintf("%s acknowledged %s while lacking earlier acknowledged %v", a.server, a.g, missing))
	}
}
