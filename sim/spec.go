package verifsim

import "time"

// Spec is one explicit, replayable scenario. A run is a pure function of (Spec, code).
type Spec struct {
	Family   string          `json:"family"`
	Seed     uint64          `json:"seed"`
	Variant  string          `json:"variant,omitempty"` // human-readable label of the sampled cell
	Hosts    []HostSpec      `json:"hosts"`
	Cfg      CfgSpec         `json:"cfg"`
	World    WorldSpec       `json:"world"`
	Rates    RateSpec        `json:"rates"`
	Timeline []TLEvent       `json:"timeline"`
	Explicit []ExplicitFault `json:"explicit,omitempty"`
	StmtFail []StmtFail      `json:"stmt_fail,omitempty"`
	CrashAt  *CrashAt        `json:"crash_at,omitempty"`
	// ExplicitOnly: replay/shrink mode - per-call decisions come only from Explicit
	ExplicitOnly bool     `json:"explicit_only,omitempty"`
	DurationMs   int64    `json:"duration_ms"`
	HealAtMs     int64    `json:"heal_at_ms"`        // after this instant no fault is injected (rates off, timeline faults must be earlier)
	LivenessMs   int64    `json:"liveness_ms"`       // bound B after HealAt for convergence checks (0 = no liveness check)
	Primary      []string `json:"primary"`           // property ids judged by this run
	Engine       string   `json:"engine,omitempty"`  // "A" (cluster) or "B" (dcs clients only)
	DCSOps       []DCSOp  `json:"dcs_ops,omitempty"` // engine B workload
	Pilot        bool     `json:"pilot,omitempty"`
}

type HostSpec struct {
	Name       string `json:"name"`
	Role       string `json:"role"` // ha | cascade | decoy
	StreamFrom string `json:"stream_from,omitempty"`
	Priority   int    `json:"priority,omitempty"`
	NoDaemon   bool   `json:"no_daemon,omitempty"`
	// initial server state overrides (repair grid etc.)
	Init         *InitState        `json:"init,omitempty"`
	StartDelayMs int64             `json:"start_delay_ms,omitempty"`
	Cfg          map[string]string `json:"cfg,omitempty"` // per-host config overrides (yaml key -> value)
}

type InitState struct {
	ReadOnly     *bool   `json:"ro,omitempty"`
	Offline      *bool   `json:"offline,omitempty"`
	Source       *string `json:"source,omitempty"` // "" = no channel (claims to be master)
	IO           *bool   `json:"io,omitempty"`
	SQL          *bool   `json:"sql,omitempty"`
	IOErrno      int     `json:"io_errno,omitempty"`
	SQLErrno     int     `json:"sql_errno,omitempty"`
	SSMaster     *bool   `json:"ss_master,omitempty"`
	SSSlave      *bool   `json:"ss_slave,omitempty"`
	WaitCount    *int    `json:"wait_count,omitempty"`
	ExtraTxns    int     `json:"extra_txns,omitempty"`  // errant transactions of its own uuid
	BehindTxns   int     `json:"behind_txns,omitempty"` // lacks the last k transactions of the master
	Down         bool    `json:"down,omitempty"`
	ApplyDelayMs int64   `json:"apply_delay_ms,omitempty"`
	FlushLog     int     `json:"flush_log,omitempty"`
	SyncBinlog   int     `json:"sync_binlog,omitempty"`
	DiskPct      int     `json:"disk_pct,omitempty"`
}

type CfgSpec struct {
	TickMs                    int64   `json:"tick_ms"`
	HealthMs                  int64   `json:"health_ms"`
	RecoveryMs                int64   `json:"recovery_ms"`
	SessionTimeoutMs          int64   `json:"session_timeout_ms"`
	LockHeldTTLMs             int64   `json:"lock_held_ttl_ms"`
	SemiSync                  bool    `json:"semi_sync"`
	Async                     bool    `json:"async,omitempty"`
	AsyncAllowedLagMs         int64   `json:"async_allowed_lag_ms,omitempty"`
	WaitSlaveCount            int     `json:"wait_slave_count"`
	Failover                  bool    `json:"failover"`
	FailoverDelayMs           int64   `json:"failover_delay_ms"`
	FailoverCooldownMs        int64   `json:"failover_cooldown_ms"`
	InactivationDelayMs       int64   `json:"inactivation_delay_ms"`
	MasterFirstSSOrder        bool    `json:"master_first_ss_order"`
	ForceSwitchover           bool    `json:"force_switchover,omitempty"`
	ManagerSwitchover         bool    `json:"manager_switchover,omitempty"`
	ResetupCrashedHosts       bool    `json:"resetup_crashed_hosts,omitempty"`
	DBTimeoutMs               int64   `json:"db_timeout_ms"`
	DBLostCheckTimeoutMs      int64   `json:"db_lost_check_timeout_ms"`
	DBSetRoTimeoutMs          int64   `json:"db_set_ro_timeout_ms"`
	DBSetRoForceTimeoutMs     int64   `json:"db_set_ro_force_timeout_ms"`
	SwitchoverTimeoutMs       int64   `json:"switchover_timeout_ms"`
	SwitchoverMaxAttempts     int     `json:"switchover_max_attempts"`
	SlaveCatchUpTimeoutMs     int64   `json:"slave_catch_up_timeout_ms"`
	WaitReplStartMs           int64   `json:"wait_repl_start_ms"`
	DisableSetROOnLost        bool    `json:"disable_set_ro_on_lost,omitempty"`
	DisableSSOnMaint          bool    `json:"disable_ss_on_maint"`
	AggressiveRepair          bool    `json:"aggressive_repair,omitempty"`
	RepairCooldownMs          int64   `json:"repair_cooldown_ms"`
	RepairMaxAttempts         int     `json:"repair_max_attempts"`
	SemiSyncEnableLag         int64   `json:"semi_sync_enable_lag"`
	CriticalDisk              float64 `json:"critical_disk,omitempty"`
	NotCriticalDisk           float64 `json:"not_critical_disk,omitempty"`
	KeepSuperWritable         bool    `json:"keep_super_writable,omitempty"`
	OfflineEnableLagMs        int64   `json:"offline_enable_lag_ms,omitempty"`
	OfflineDisableLagMs       int64   `json:"offline_disable_lag_ms,omitempty"`
	OfflineMaxPct             int     `json:"offline_max_pct,omitempty"`
	OfflineAZSep              string  `json:"offline_az_sep,omitempty"`
	OfflineEnableIntervalMs   int64   `json:"offline_enable_interval_ms,omitempty"`
	StreamFromReasonableLagMs int64   `json:"stream_from_reasonable_lag_ms,omitempty"`
	PriorityChoiceMaxLagMs    int64   `json:"priority_choice_max_lag_ms,omitempty"`
	OptHighMs                 int64   `json:"opt_high_ms,omitempty"`
	OptLowMs                  int64   `json:"opt_low_ms,omitempty"`
	ReplConvergenceTimeoutMs  int64   `json:"repl_convergence_timeout_ms,omitempty"`
	ReplMon                   bool    `json:"repl_mon,omitempty"`
	ManagerElectionDelayMs    int64   `json:"manager_election_delay_ms,omitempty"`
	ManagerLockAcquireDelayMs int64   `json:"manager_lock_acquire_delay_ms,omitempty"`
	ResetupHostLagMs          int64   `json:"resetup_host_lag_ms,omitempty"`
	SameZKIdentity            bool    `json:"same_zk_identity,omitempty"` // C03 sub-family: restart keeps {hostname,pid}
	LogLevel                  string  `json:"log_level,omitempty"`
	CustomLagQuery            bool    `json:"custom_lag_query,omitempty"`
}

type WorldSpec struct {
	MySQLVersion   [3]int `json:"mysql_version"`
	ReplTickMs     int64  `json:"repl_tick_ms"`
	ClientWriteMs  int64  `json:"client_write_ms"` // 0 = no workload
	Clients        int    `json:"clients"`
	InitialTxns    int    `json:"initial_txns"`
	TxnSize        int64  `json:"txn_size"`
	ZKMinSessionMs int64  `json:"zk_min_session_ms,omitempty"`
	PreConverged   bool   `json:"pre_converged"` // start with semi-sync flags / znodes already in the converged state
	Burst          bool   `json:"burst,omitempty"`
	Steady         bool   `json:"steady,omitempty"`
	AutoResetupMs  int64  `json:"auto_resetup_ms,omitempty"` // external tooling: rebuild a host this long after its resetup file appears
}

type RateSpec struct {
	FromMs       int64   `json:"from_ms"`
	ToMs         int64   `json:"to_ms"`
	SQLErr       float64 `json:"sql_err"`
	SQLLost      float64 `json:"sql_lost"`
	SQLHang      float64 `json:"sql_hang"`
	SQLSlow      float64 `json:"sql_slow"`
	ZKReset      float64 `json:"zk_reset"`
	ZKResetAfter float64 `json:"zk_reset_after"`
	// connection reset right after a delete request was applied (its reply is lost)
	ZKResetAfterDelete float64 `json:"zk_reset_after_delete,omitempty"`
	ZKSlow             float64 `json:"zk_slow"`
	OnlyMutating       bool    `json:"only_mutating,omitempty"`
}

type TLEvent struct {
	AtMs  int64  `json:"at_ms"`
	Kind  string `json:"kind"`
	Host  string `json:"host,omitempty"`
	Host2 string `json:"host2,omitempty"`
	Arg   string `json:"arg,omitempty"`
	Arg2  string `json:"arg2,omitempty"`
	N     int64  `json:"n,omitempty"`
	DurMs int64  `json:"dur_ms,omitempty"`
	Fault bool   `json:"fault,omitempty"` // counts as an injected fault (for HealAt bookkeeping)
}

// StmtFail: every statement with this prefix arriving at Host in [FromMs,ToMs) fails before
// effect with Errno (0 = hangs until the caller's deadline). Models persistent MySQL-side trouble.
type StmtFail struct {
	Host   string `json:"host"`
	Prefix string `json:"prefix"`
	Errno  int    `json:"errno"`
	After  string `json:"after,omitempty"` // only when the sender's previous changing statement to Host had this prefix
	FromMs int64  `json:"from_ms"`
	ToMs   int64  `json:"to_ms"`
}

// CrashAt: kill (or cut from ZooKeeper) the incarnation that started a switchover attempt at
// its N-th external call (SQL statement or ZooKeeper request) after the StartSwitchover write.
type CrashAt struct {
	N          int    `json:"n"`
	Mode       string `json:"mode"`                   // after | before | zkcut | fail (the call fails instead of a crash)
	ArmAfterMs int64  `json:"arm_after_ms,omitempty"` // arm at the first Manager iteration beginning at/after this instant instead of at StartSwitchover
	RestartMs  int64  `json:"restart_ms"`             // 0 = never restarted (another host takes over)
	CutMs      int64  `json:"cut_ms,omitempty"`
}

// ExplicitFault pins the decision for one call identity.
type ExplicitFault struct {
	Key   string `json:"key"`
	Fault string `json:"fault"` // err:<n> | lost | hang | slow:<ms> | zk:reset_before | zk:reset_after | zk:slow:<ms> | crash_before | crash_after
}

type DCSOp struct {
	Client int    `json:"client"`
	Op     string `json:"op"`
	Path   string `json:"path,omitempty"`
	Value  string `json:"value,omitempty"`
	GapMs  int64  `json:"gap_ms,omitempty"`
}

// ---------------------------------------------------------------- results

type Violation struct {
	Property  string `json:"property"`
	Clause    string `json:"clause"`
	Signature string `json:"signature"`
	SimTimeMs int64  `json:"sim_time_ms"`
	EventSeq  uint64 `json:"event_seq"`
	Detail    string `json:"detail"`
}

type Stats struct {
	SimSeconds    float64        `json:"sim_seconds"`
	Steps         int64          `json:"steps"`
	SQLCalls      int64          `json:"sql_calls"`
	ZKRequests    int64          `json:"zk_requests"`
	Iterations    int64          `json:"iterations"`
	Faults        map[string]int `json:"faults_fired"`
	Probes        map[string]int `json:"probes"`
	States        []string       `json:"states,omitempty"`
	Transitions   []string       `json:"transitions,omitempty"`
	Interleavings []string       `json:"interleavings,omitempty"`
	Unknown       map[string]int `json:"unknown_statements,omitempty"`
	Goroutines    []int          `json:"goroutines,omitempty"`
	OpenConns     []int          `json:"open_conns,omitempty"`
}

type Result struct {
	Spec       *Spec           `json:"spec"`
	Violations []Violation     `json:"violations"`
	Stats      *Stats          `json:"stats"`
	TraceHash  string          `json:"trace_hash"`
	TrajHash   string          `json:"traj_hash"`
	Nontrivial bool            `json:"nontrivial"`
	Fired      []ExplicitFault `json:"fired,omitempty"`
	Calls      []string        `json:"calls,omitempty"` // pilot mode: keys of manager calls during a switchover
	EndState   string          `json:"end_state,omitempty"`
	Harness    string          `json:"harness_error,omitempty"`
}

func ms(v int64) time.Duration { return time.Duration(v) * time.Millisecond }
