package verifsim

import "fmt"

func baseB(r *rng) *Spec {
	sp := &Spec{Engine: "B"}
	c := &sp.Cfg
	c.SessionTimeoutMs = int64(r.pickInt(2000, 3000, 4000, 6000))
	c.LockHeldTTLMs = int64(r.pickInt(0, 1000, 30000, 3600000))
	return sp
}

func addBFaults(sp *Spec, r *rng, nClients int, horizon int64) {
	T := sp.Cfg.SessionTimeoutMs
	n := r.rangeInt(1, 4)
	for i := 0; i < n; i++ {
		at := 1500 + int64(r.intn(int(horizon-3000)))
		host := fmt.Sprintf("k%d", r.rangeInt(1, nClients))
		switch r.intn(6) {
		case 0, 1, 2:
			// blackhole of seed-chosen length: shorter than the client's receive timeout (2/3 T),
			// between it and the session timeout, longer than the session timeout (expiry)
			d := []int64{T / 4, T * 2 / 3, T*5/6 + 50, T + 700, 2 * T}[r.intn(5)]
			sp.Timeline = append(sp.Timeline, TLEvent{AtMs: at, Kind: "cut", Host: host, Host2: "zk", Arg: "blackhole", DurMs: d, Fault: true})
		case 3:
			sp.Timeline = append(sp.Timeline, TLEvent{AtMs: at, Kind: "cut", Host: host, Host2: "zk", Arg: "reject", DurMs: []int64{200, T / 2, T + 500}[r.intn(3)], Fault: true})
		case 4:
			sp.Timeline = append(sp.Timeline, TLEvent{AtMs: at, Kind: "zk_restart", Fault: true})
		case 5:
			sp.Timeline = append(sp.Timeline, TLEvent{AtMs: at, Kind: "zk_down", DurMs: []int64{300, T / 2, T + 500}[r.intn(3)], Fault: true})
		}
	}
	sp.Rates = RateSpec{FromMs: 0, ToMs: horizon, ZKReset: []float64{0, 0.01, 0.03}[r.intn(3)], ZKResetAfter: []float64{0, 0.01, 0.03}[r.intn(3)], ZKSlow: []float64{0, 0.03}[r.intn(2)]}
}

// family lock (C03 part 1)
func genLock(r *rng, index int) *Spec {
	sp := baseB(r)
	k := r.rangeInt(2, 4)
	var total int64
	restart := index%5 == 4
	if restart {
		sp.Cfg.SameZKIdentity = index%10 == 9
	}
	// contended release: everybody acquires and releases in quick succession while the reply to a
	// release's delete is often lost (the delete is retried on the re-established connection)
	contended := index%6 == 5 && !restart
	if contended {
		sp.Cfg.LockHeldTTLMs = int64(r.pickInt(0, 0, 1000))
	}
	for c := 1; c <= k; c++ {
		n := r.rangeInt(8, 18)
		var t int64
		for i := 0; i < n; i++ {
			gap := int64(r.pickInt(20, 100, 400, 900, 1500, 2500))
			if contended {
				gap = int64(r.pickInt(20, 50, 100, 200, 400))
			}
			t += gap
			op := DCSOp{Client: c, GapMs: gap}
			switch x := r.intn(10); {
			case x < 6:
				op.Op = "acquire"
			case x < 8:
				op.Op = "release"
			case x < 9:
				op.Op, op.Path, op.Value = "set", "shared", fmt.Sprintf("c%d_%d", c, i)
			default:
				op.Op, op.Path = "get", "shared"
			}
			sp.DCSOps = append(sp.DCSOps, op)
			if restart && c == 1 && i == n/2 {
				// the process restarts shortly after a successful-or-not acquire
				sp.DCSOps = append(sp.DCSOps, DCSOp{Client: c, Op: "acquire", GapMs: 50})
				sp.DCSOps = append(sp.DCSOps, DCSOp{Client: c, Op: "restart", GapMs: int64(r.pickInt(100, 500, 1500))})
				sp.DCSOps = append(sp.DCSOps, DCSOp{Client: c, Op: "acquire", GapMs: int64(r.pickInt(10, 200))})
				t += 2000
			}
		}
		if t > total {
			total = t
		}
	}
	sp.DurationMs = total + 3*sp.Cfg.SessionTimeoutMs + 5000
	if index%4 != 0 && !contended {
		addBFaults(sp, r, k, total+2000)
	}
	if contended {
		sp.Rates = RateSpec{FromMs: 0, ToMs: total + 2000, ZKResetAfterDelete: []float64{0.2, 0.4}[r.intn(2)], ZKSlow: []float64{0, 0.03}[r.intn(2)]}
	}
	sp.Variant = fmt.Sprintf("clients=%d ttl=%d session=%d restart=%v sameid=%v contended=%v", k, sp.Cfg.LockHeldTTLMs, sp.Cfg.SessionTimeoutMs, restart, sp.Cfg.SameZKIdentity, contended)
	sp.Primary = []string{"C03", "C15"}
	return sp
}

var bKeys = []string{"a", "a/b", "a/b/c", "d", "d/e", "f"}

func spell(r *rng, k string) string {
	switch r.intn(5) {
	case 0:
		return "/" + k
	case 1:
		return k + "/"
	case 2:
		return "/" + k + "/"
	case 3:
		// double a slash somewhere
		for i := 0; i < len(k); i++ {
			if k[i] == '/' {
				return k[:i] + "/" + k[i:]
			}
		}
		return "//" + k
	}
	return k
}

// family dataplane (C15)
func genDataplane(r *rng, index int) *Spec {
	sp := baseB(r)
	k := 1
	if index%3 != 0 {
		k = r.rangeInt(2, 3)
	}
	var total int64
	for c := 1; c <= k; c++ {
		n := r.rangeInt(12, 30)
		var t int64
		for i := 0; i < n; i++ {
			gap := int64(r.pickInt(5, 30, 120, 500))
			t += gap
			key := bKeys[r.intn(len(bKeys))]
			op := DCSOp{Client: c, GapMs: gap, Path: spell(r, key), Value: fmt.Sprintf("c%d_%d", c, i)}
			switch x := r.intn(20); {
			case x < 3:
				op.Op = "create"
			case x < 5:
				op.Op = "create_eph"
			case x < 8:
				op.Op = "set"
			case x < 10:
				op.Op = "set_eph"
			case x < 14:
				op.Op = "get"
			case x < 16:
				op.Op = "delete"
			case x < 18:
				op.Op = "children"
			case x < 19:
				op.Op = "tree"
			default:
				op.Op, op.Path = "acquire", ""
			}
			sp.DCSOps = append(sp.DCSOps, op)
		}
		if t > total {
			total = t
		}
	}
	// planted raw non-JSON value
	if r.chance(0.5) {
		sp.Timeline = append(sp.Timeline, TLEvent{AtMs: int64(r.intn(int(total) + 1)), Kind: "zk_set", Arg: "/test/" + bKeys[r.intn(len(bKeys))], Arg2: "not json{"})
	}
	sp.DurationMs = total + 2*sp.Cfg.SessionTimeoutMs + 4000
	faulty := index%2 == 1
	if faulty {
		addBFaults(sp, r, k, total+1500)
	}
	sp.Variant = fmt.Sprintf("clients=%d faults=%v", k, faulty)
	sp.Primary = []string{"C15"}
	return sp
}
