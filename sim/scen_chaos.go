package verifsim

import "fmt"

var garbageValues = []string{`not json{`, `[]`, `{}`, `null`, `"string"`, `12345`, `{"from":1,"to":[],"initiated_at":"yesterday"}`, `{"ping_ok":true}`, `{"ping_ok":true,"is_master":false,"slave_state":{"master_host":"ghost","replication_state":"running"}}`, `{"stream_from":"ghost"}`, `{"stream_from":""}`, `{"priority":-5}`, `["ghost","h1"]`, `true`}

// family chaos (C20): everything at once + tree contents only tools can create.
func genChaos(r *rng, index int, tier string) *Spec {
	sp := baseSpec(r, shapeOpt{minHA: 2, maxHA: 4, cascade: 0.5})
	c := &sp.Cfg
	c.ManagerSwitchover = r.chance(0.4)
	c.ManagerElectionDelayMs, c.ManagerLockAcquireDelayMs = 8000, 10000
	c.ResetupCrashedHosts = r.chance(0.3)
	c.AggressiveRepair = r.chance(0.4)
	c.FailoverCooldownMs = int64(r.pickInt(0, 30000))
	c.SwitchoverTimeoutMs = 60000
	c.ReplMon = r.chance(0.3)
	sp.World.AutoResetupMs = 12000
	dur := int64(300000)
	if tier == "thorough" {
		dur = int64(r.pickInt(600000, 1200000, 1800000))
	}
	var hosts []string
	for _, h := range sp.Hosts {
		hosts = append(hosts, h.Name)
	}
	ha := sp.haNames()
	if index%4 == 3 {
		return genSteady(sp, r, index, dur)
	}
	sp.Rates = RateSpec{FromMs: 5000, ToMs: dur - 30000,
		SQLErr: []float64{0.002, 0.01, 0.02}[r.intn(3)], SQLLost: []float64{0, 0.003}[r.intn(2)], SQLHang: []float64{0, 0.003}[r.intn(2)], SQLSlow: 0.01,
		ZKReset: []float64{0, 0.003}[r.intn(2)], ZKResetAfter: []float64{0, 0.002}[r.intn(2)], ZKSlow: 0.005}
	n := int(dur / 12000)
	for i := 0; i < n; i++ {
		at := 8000 + int64(r.intn(int(dur-40000)))
		h := hosts[r.intn(len(hosts))]
		ev := TLEvent{AtMs: at, Host: h, Fault: true}
		switch x := r.intn(30); {
		case x < 3:
			ev.Kind, ev.DurMs = "kill_mysql", int64(r.pickInt(2000, 10000, 40000))
			if r.chance(0.3) {
				ev.Arg = "crash_recovery"
			}
		case x < 5:
			ev.Kind, ev.DurMs = "kill_daemon", int64(r.pickInt(1000, 8000, 30000))
		case x < 6:
			ev.Kind, ev.DurMs = "stop_daemon", int64(r.pickInt(1000, 8000))
		case x < 8:
			ev.Kind, ev.DurMs = "kill_host", int64(r.pickInt(5000, 30000))
		case x < 10:
			ev.Kind, ev.Arg, ev.DurMs = "isolate", r.pick("blackhole", "reject"), int64(r.pickInt(1000, 6000, 20000))
		case x < 11:
			ev.Kind, ev.Host, ev.DurMs = "zk_down", "", int64(r.pickInt(500, 3000, 10000))
		case x < 12:
			ev.Kind, ev.Host = "zk_restart", ""
		case x < 14:
			ev.Kind, ev.Arg, ev.Fault = "cli_switch_to", ha[r.intn(len(ha))], false
		case x < 15:
			ev.Kind, ev.Arg, ev.Fault = "cli_switch_from", ha[r.intn(len(ha))], false
		case x < 16:
			ev.Kind, ev.Arg, ev.Fault = "cli_maint_on", r.pick("light", "full"), false
			sp.Timeline = append(sp.Timeline, TLEvent{AtMs: at + int64(r.pickInt(3000, 15000)), Kind: "cli_maint_off", Host: h})
		case x < 18:
			// deregister a host (possibly the master or a stream_from target) and bring it back later
			path := "/test/ha_nodes/" + h
			if sp.hostRole(h) == "cascade" {
				path = "/test/cascade_nodes/" + h
			}
			ev.Kind, ev.Arg, ev.Host = "zk_delete", path, ""
			val := `{"priority":0}`
			if sp.hostRole(h) == "cascade" {
				val = fmt.Sprintf(`{"stream_from":%q}`, sp.hostSpecByName(h).StreamFrom)
			}
			sp.Timeline = append(sp.Timeline, TLEvent{AtMs: at + int64(r.pickInt(1500, 6000, 20000)), Kind: "zk_set", Arg: path, Arg2: val})
		case x < 19:
			ev.Kind, ev.Arg, ev.Arg2, ev.Host = "zk_set", "/test/master", r.pick(`"ghost"`, `"c1"`, `""`, `not json`), ""
			sp.Timeline = append(sp.Timeline, TLEvent{AtMs: at + int64(r.pickInt(1500, 6000)), Kind: "zk_delete", Arg: "/test/master"})
		case x < 20:
			ev.Kind, ev.Arg, ev.Arg2, ev.Host = "zk_set", "/test/cascade_nodes/"+r.pick("c1", "c9"), r.pick(`{"stream_from":"ghost"}`, `{"stream_from":"c1"}`, `{"stream_from":"c9"}`, `not json`), ""
			if ev.Arg == "/test/cascade_nodes/c9" {
				sp.Timeline = append(sp.Timeline, TLEvent{AtMs: at + 9000, Kind: "zk_delete", Arg: ev.Arg})
			}
		case x < 23:
			paths := []string{"/test/health/" + h, "/test/active_nodes", "/test/switch", "/test/maintenance", "/test/ha_nodes/" + ha[r.intn(len(ha))], "/test/last_switch", "/test/last_rejected_switch", "/test/recovery/" + h, "/test/optimization_nodes/" + h, "/test/resetup_status/" + h, "/test/low_space", "/test/last_shutdown_node_time", "/test/master_repl_mon_ts", "/test/timing/switchover", "/test/optimization_nodes/ghost", "/test/recovery/ghost"}
			p := paths[r.intn(len(paths))]
			ev.Kind, ev.Arg, ev.Arg2, ev.Host = "zk_set", p, garbageValues[r.intn(len(garbageValues))], ""
			if p == "/test/switch" || p == "/test/maintenance" || p == "/test/recovery/"+h || p == "/test/recovery/ghost" {
				sp.Timeline = append(sp.Timeline, TLEvent{AtMs: at + int64(r.pickInt(3000, 12000)), Kind: "zk_delete", Arg: p})
			}
		case x < 24:
			ev.Kind = "lag_null_once"
		case x < 25:
			ev.Kind, ev.N, ev.Arg = "repl_error", int64(r.pickInt(1146, 1062, 1032)), "sql"
			sp.Timeline = append(sp.Timeline, TLEvent{AtMs: at + 20000, Kind: "repl_fix", Host: h})
		case x < 26:
			ev.Kind, ev.N = "errant_txn", 1
		case x < 27:
			ev.Kind, ev.N = "disk", int64(r.pickInt(50, 92, 97, 100))
			sp.Timeline = append(sp.Timeline, TLEvent{AtMs: at + 15000, Kind: "disk", Host: h, N: 10})
		case x < 28:
			ev.Kind, ev.N = "apply_delay", int64(r.pickInt(0, 200, 2000))
		case x < 29:
			ev.Kind = "events"
		default:
			ev.Kind, ev.Fault = "cli_opt_on", false
		}
		sp.Timeline = append(sp.Timeline, ev)
	}
	sp.DurationMs = dur
	sp.HealAtMs = dur - 30000
	sp.Variant = fmt.Sprintf("chaos events=%d", len(sp.Timeline))
	sp.Primary = []string{"C20"}
	return sp
}

func (sp *Spec) hostRole(name string) string {
	for _, h := range sp.Hosts {
		if h.Name == name {
			return h.Role
		}
	}
	return ""
}
func (sp *Spec) hostSpecByName(name string) *HostSpec {
	for i := range sp.Hosts {
		if sp.Hosts[i].Name == name {
			return &sp.Hosts[i]
		}
	}
	return &HostSpec{}
}

// steady runs: one fixed condition held for the whole run, no transient faults; goroutine and
// connection counts must not grow.
func genSteady(sp *Spec, r *rng, index int, dur int64) *Spec {
	ha := sp.haNames()
	c := &sp.Cfg
	cond := []string{"healthy", "master_invisible_manager_switchover", "zk_lost_all", "maintenance", "failing_switchover", "dead_replica", "deregistered_host", "master_dead_no_failover", "replica_isolated", "switchover_cannot_freeze_master", "lost_master_cannot_be_fenced"}[(index/4)%11]
	c.TickMs, c.HealthMs, c.RecoveryMs = 1000, 1000, 1000
	switch cond {
	case "master_invisible_manager_switchover":
		c.ManagerSwitchover = true
		c.ManagerElectionDelayMs, c.ManagerLockAcquireDelayMs = 3600000, 3600000
		c.Failover = false
		// the manager (h2) cannot reach the master's MySQL; everybody else can
		sp.Hosts[1].StartDelayMs = 50
		sp.Hosts[0].StartDelayMs = 3000
		sp.Timeline = append(sp.Timeline, TLEvent{AtMs: 6000, Kind: "cut", Host: ha[1], Host2: ha[0], Arg: "reject", Fault: true})
	case "zk_lost_all":
		sp.Timeline = append(sp.Timeline, TLEvent{AtMs: 10000, Kind: "zk_down", Fault: true})
	case "maintenance":
		sp.Timeline = append(sp.Timeline, TLEvent{AtMs: 8000, Kind: "cli_maint_on", Host: ha[0], Arg: "full"})
	case "failing_switchover":
		c.SwitchoverTimeoutMs = 3600000
		c.SwitchoverMaxAttempts = 100000
		sp.Timeline = append(sp.Timeline, TLEvent{AtMs: 8000, Kind: "cli_switch_to", Host: ha[0], Arg: ha[1]})
		for _, h := range ha[1:] {
			sp.StmtFail = append(sp.StmtFail, StmtFail{Host: h, Prefix: "STOP ", Errno: 1105, FromMs: 0, ToMs: dur})
		}
	case "switchover_cannot_freeze_master":
		// every attempt goes through the whole read-only procedure on the old master (graceful
		// attempts, session killer, forced attempt) and fails
		c.SwitchoverTimeoutMs = 3600000
		c.SwitchoverMaxAttempts = 100000
		c.DBSetRoTimeoutMs, c.DBSetRoForceTimeoutMs = 3000, 5000
		for at := int64(8000); at < dur-40000; at += 35000 {
			sp.Timeline = append(sp.Timeline, TLEvent{AtMs: at, Kind: "cli_switch_from", Host: ha[1], Arg: ha[0]})
		}
		sp.StmtFail = append(sp.StmtFail, StmtFail{Host: ha[0], Prefix: "SET GLOBAL super_read_only", Errno: 1205, FromMs: 0, ToMs: dur})
	case "lost_master_cannot_be_fenced":
		// ZooKeeper gone for everybody, replicas stopped: the master's daemon tries to fence it in
		// every Lost iteration and fails the same way
		c.DBSetRoTimeoutMs, c.DBSetRoForceTimeoutMs = 3000, 5000
		c.InactivationDelayMs = 3000
		c.DisableSetROOnLost = false
		c.SemiSync = false
		for _, h := range ha[1:] {
			sp.Timeline = append(sp.Timeline, TLEvent{AtMs: 9000, Kind: "sql", Host: h, Arg: "STOP SLAVE FOR CHANNEL ''"})
		}
		sp.Timeline = append(sp.Timeline, TLEvent{AtMs: 10000, Kind: "zk_down", Fault: true})
		sp.StmtFail = append(sp.StmtFail, StmtFail{Host: ha[0], Prefix: "SET GLOBAL super_read_only", Errno: 1205, FromMs: 0, ToMs: dur})
	case "dead_replica":
		sp.Timeline = append(sp.Timeline, TLEvent{AtMs: 8000, Kind: "kill_mysql", Host: ha[len(ha)-1], Fault: true})
	case "deregistered_host":
		sp.Timeline = append(sp.Timeline, TLEvent{AtMs: 8000, Kind: "zk_delete", Arg: "/test/ha_nodes/" + ha[len(ha)-1]})
	case "master_dead_no_failover":
		c.Failover = false
		sp.Timeline = append(sp.Timeline, TLEvent{AtMs: 8000, Kind: "kill_mysql", Host: ha[0], Fault: true})
	case "replica_isolated":
		sp.Timeline = append(sp.Timeline, TLEvent{AtMs: 8000, Kind: "isolate", Host: ha[len(ha)-1], Arg: "blackhole", Fault: true})
	}
	sp.World.ClientWriteMs = 2000
	sp.DurationMs = dur
	sp.Variant = "steady " + cond
	sp.Primary = []string{"C20"}
	sp.World.Steady = true
	return sp
}
