package verifsim

import (
	"encoding/json"
	"fmt"
	"strings"
	"time"
)

type healthFull struct {
	IsMaster  bool `json:"is_master"`
	DiskState *struct {
		Used  uint64
		Total uint64
	} `json:"disk_state"`
	SlaveState *struct {
		ReplicationState string `json:"replication_state"`
	} `json:"slave_state"`
	SemiSyncState *struct {
		MasterEnabled  bool `json:"master_enabled"`
		SlaveEnabled   bool `json:"slave_enabled"`
		WaitSlaveCount int  `json:"wait_slave_count"`
	} `json:"semi_sync_state"`
}

func (h *healthFull) usage() (float64, bool) {
	if h.DiskState == nil {
		return 0, false
	}
	if h.DiskState.Total == 0 {
		return 0, true
	}
	if h.DiskState.Used > h.DiskState.Total {
		return 100, true
	}
	return 100 * float64(h.DiskState.Used) / float64(h.DiskState.Total), true
}

// C18 - disk-space guard: read-only at critical usage, hysteresis on return.
type orC18 struct {
	baseOracle
	lastDir    string // "ro" | "rw": direction of the last successful change by the guard
	critSince  time.Duration
	clearSince time.Duration
}

func (o *orC18) name() string { return "C18" }

// a host's health record reports a disk usage only when one was measured: the guard treats a
// replica without a report as unknown, not as empty
func (o *orC18) onHealthRecord(e *ZKEvent) {
	m := o.m
	if !m.primary["C18"] || e.Err != 0 || !(e.Op == "set" || e.Op == "create") || !strings.HasPrefix(e.Path, "/test/health/") || !m.isDaemon(e.Inc) {
		return
	}
	h := strings.TrimPrefix(e.Path, "/test/health/")
	var hf healthFull
	if json.Unmarshal([]byte(e.Data), &hf) != nil {
		return
	}
	hist := m.diskHist[h]
	if len(hist) == 0 {
		return
	}
	last := hist[len(hist)-1]
	grace := 2*ms(m.s.spec.Cfg.HealthMs) + 2*time.Second
	if !last.ok && m.s.now()-last.t > grace {
		m.probe("c18_health_record_of_unmeasurable_host_checked")
		if _, known := hf.usage(); known {
			u, _ := hf.usage()
			m.violate("C18", "report", "disk-usage-reported-although-not-measurable", fmt.Sprintf("%s published a health record with disk usage %.0f%% for %s, whose usage has not been measurable since %v", e.Inc, u, h, last.t))
		}
	}
}

type diskView struct {
	masterUsage          float64
	masterKnown          bool
	running, low, normal int
}

// view: what the health records read by the manager in this iteration said
func (o *orC18) view(it *iterRec, master string, before uint64) diskView {
	var v diskView
	cfg := &o.m.s.spec.Cfg
	crit, ncrit := cfg.CriticalDisk, cfg.NotCriticalDisk
	if crit == 0 {
		crit = 95
	}
	if ncrit == 0 {
		ncrit = crit
	}
	seen := map[string]bool{}
	// the manager's snapshot is taken at the beginning of its iteration (first read per host);
	// later reads of the same record in the window belong to the health loop of the same process
	for i := 0; i < len(it.reads); i++ {
		r := it.reads[i]
		if r.op != "get" || !strings.HasPrefix(r.path, "health/") || r.seq > before || r.err != 0 {
			continue
		}
		h := strings.TrimPrefix(r.path, "health/")
		if seen[h] {
			continue
		}
		// the health loop of the same process reads its own record right before re-writing it:
		// the last read preceding each write of the record is the health loop's, not the manager's
		own := false
		for _, w := range it.zkWrites {
			if w.Path != "/test/"+r.path || w.Op != "set" || w.Seq < r.seq {
				continue
			}
			last := true
			for _, r2 := range it.reads {
				if r2.path == r.path && r2.op == "get" && r2.seq > r.seq && r2.seq < w.Seq {
					last = false
				}
			}
			if last {
				own = true
			}
			break
		}
		if own {
			continue
		}
		seen[h] = true
		var hf healthFull
		if json.Unmarshal([]byte(r.data), &hf) != nil {
			continue
		}
		u, ok := hf.usage()
		if !ok {
			continue
		}
		if h == master {
			if hf.IsMaster {
				v.masterUsage, v.masterKnown = u, true
			}
			continue
		}
		if cfg.SemiSync && hf.SemiSyncState != nil && hf.SemiSyncState.SlaveEnabled && hf.SlaveState != nil && hf.SlaveState.ReplicationState == "running" {
			v.running++
			if u >= crit {
				v.low++
			} else if u <= ncrit {
				v.normal++
			}
		}
	}
	return v
}

func (o *orC18) onSQL(ev *SQLEvent) {
	m := o.m
	if !m.primary["C18"] || !m.isDaemon(ev.Src) || ev.Dst != m.master || ev.It == nil || ev.It.state != "Manager" {
		return
	}
	it := ev.It
	// outside switchover / maintenance only
	for _, r := range it.reads {
		if (r.path == "switch" || r.path == "maintenance") && r.op == "get" && r.err == 0 {
			return
		}
	}
	cfg := &m.s.spec.Cfg
	crit, ncrit := cfg.CriticalDisk, cfg.NotCriticalDisk
	if crit == 0 {
		crit = 95
	}
	if ncrit == 0 {
		ncrit = crit
	}
	q := ev.Query
	isRO := q == "SET GLOBAL super_read_only = 1" || q == "SET GLOBAL read_only = 1, super_read_only = 0"
	isRW := q == "SET GLOBAL read_only = 0"
	if !isRO && !isRW {
		return
	}
	v := o.view(it, m.master, ev.Seq)
	msv := m.s.mysql.servers[m.master]
	wc := 0
	if msv != nil {
		wc = msv.WaitCount
	}
	if isRO {
		m.probe("c18_master_set_read_only")
		allowed := (v.masterKnown && v.masterUsage >= crit) || (v.low >= 1 && v.running-v.low < wc)
		if !allowed {
			m.violate("C18", "ro_without_cause", "master-set-read-only-without-critical-usage", fmt.Sprintf("%s sent %q to master %s: master usage %.0f%% (known=%v), running semi-sync replicas %d of which %d at critical usage, master waits for %d acks (critical %.0f%%)", ev.Src, q, m.master, v.masterUsage, v.masterKnown, v.running, v.low, wc, crit))
		}
		wantSuper := !cfg.KeepSuperWritable
		if (q == "SET GLOBAL super_read_only = 1") != wantSuper {
			m.violate("C18", "ro_flavour", "wrong-read-only-flavour-for-configuration", fmt.Sprintf("%s sent %q with keep_super_writable_on_critical_disk_usage=%v", ev.Src, q, cfg.KeepSuperWritable))
		}
		if ev.toldOK() {
			o.lastDir = "ro"
		}
	}
	if isRW {
		m.probe("c18_master_set_writable")
		allowed := (!v.masterKnown || v.masterUsage <= ncrit) && (v.running == 0 || v.normal >= 1) && !(v.masterKnown && v.masterUsage >= crit)
		if v.low >= 1 && v.running-v.low < wc {
			allowed = false
		}
		if !allowed {
			m.violate("C18", "rw_in_grey_or_critical", "master-made-writable-above-non-critical-usage", fmt.Sprintf("%s made master %s writable: master usage %.0f%%, running semi-sync replicas %d (normal %d, critical %d), thresholds %.0f/%.0f", ev.Src, m.master, v.masterUsage, v.running, v.normal, v.low, ncrit, crit))
		}
		if ev.toldOK() {
			o.lastDir = "rw"
		}
	}
}

func (o *orC18) onZK(e *ZKEvent) {
	m := o.m
	o.onHealthRecord(e)
	if !m.primary["C18"] || e.Err != 0 || e.Path != "/test/low_space" || !m.isDaemon(e.Inc) || (e.Op != "set" && e.Op != "create") {
		return
	}
	want := map[string]string{"ro": "true", "rw": "false"}[o.lastDir]
	if want != "" && e.Data != want {
		m.violate("C18", "low_space_flag", "low-space-flag-contradicts-last-change", fmt.Sprintf("%s wrote low_space=%s after the last successful change was %s", e.Inc, e.Data, o.lastDir))
	}
	m.probe("c18_low_space_written")
}

// liveness: a persisting critical (resp. clear) condition is acted on
func (o *orC18) onIterLeave(it *iterRec) {
	m := o.m
	s := m.s
	if !m.primary["C18"] || it.state != "Manager" || it.next != "Manager" || !it.ownedLock || m.switchRaw != "" || m.maintRaw != "" {
		return
	}
	cfg := &s.spec.Cfg
	crit := cfg.CriticalDisk
	if crit == 0 {
		crit = 95
	}
	msv := s.mysql.servers[m.master]
	if msv == nil || !msv.Up {
		o.critSince = 0
		return
	}
	if float64(msv.DiskPct) >= crit && !msv.ReadOnly {
		if o.critSince == 0 {
			o.critSince = s.now()
		}
		lim := 3*ms(cfg.TickMs) + 2*ms(cfg.HealthMs) + ms(cfg.DBSetRoForceTimeoutMs) + 16*time.Second
		if s.now()-o.critSince > lim && it.faults == 0 {
			sig := "master-writable-at-critical-usage"
			if len(msv.waiters) > 0 && msv.SSMaster {
				// commits wait for a semi-sync acknowledgement nobody can give: the read-only statement
				// cannot get through (neither can the session killer), and the guard does not switch
				// semi-sync off to release them
				sig = "master-writable-at-critical-usage:commits-stuck-on-semi-sync-ack"
			}
			m.violate("C18", "critical_not_fenced", sig, fmt.Sprintf("master %s at %d%% usage has stayed writable for %v", m.master, msv.DiskPct, s.now()-o.critSince))
		}
	} else {
		o.critSince = 0
	}
}
