package verifsim

import "fmt"

// family membership (C04)
func genMembership(r *rng, index int) *Spec {
	sp := baseSpec(r, shapeOpt{minHA: 2, maxHA: 5, cascade: 0.15, semiSync: pb(true)})
	c := &sp.Cfg
	c.WaitSlaveCount = r.pickInt(1, 2, 3)
	c.MasterFirstSSOrder = index%2 == 0
	c.Failover = false
	c.InactivationDelayMs = int64(r.pickInt(3000, 6000))
	c.SemiSyncEnableLag = 20000
	ha := sp.haNames()
	master := ha[0]
	victim := ha[1+r.intn(len(ha)-1)]
	T := int64(12000 + r.intn(3000))
	trans := []string{"replica_dies", "replica_returns", "sql_error", "io_stopped", "errant", "download_lag", "return_to_lone_master", "recovery_mark", "cascade_conversion", "io_error", "two_die", "replica_dies"}[index%12]
	back := int64(r.pickInt(8000, 15000, 25000))
	stopIO := "STOP SLAVE IO_THREAD FOR CHANNEL ''"
	switch trans {
	case "replica_dies":
		sp.Timeline = append(sp.Timeline, TLEvent{AtMs: T, Kind: "kill_mysql", Host: victim, Fault: true, DurMs: back + 10000})
	case "replica_returns":
		sp.hostSpecByName(victim).Init = &InitState{Down: true, SSSlave: pb(false)}
		sp.Timeline = append(sp.Timeline, TLEvent{AtMs: T, Kind: "start_mysql", Host: victim})
	case "sql_error":
		sp.Timeline = append(sp.Timeline, TLEvent{AtMs: T, Kind: "repl_error", Host: victim, N: int64(r.pickInt(1062, 1146)), Arg: "sql"})
		sp.Timeline = append(sp.Timeline, TLEvent{AtMs: T + back, Kind: "repl_fix", Host: victim})
		sp.Timeline = append(sp.Timeline, TLEvent{AtMs: T + back + 50, Kind: "sql", Host: victim, Arg: "START SLAVE FOR CHANNEL ''"})
	case "io_error":
		sp.Timeline = append(sp.Timeline, TLEvent{AtMs: T, Kind: "repl_error", Host: victim, N: 1236, Arg: "io"})
		sp.Timeline = append(sp.Timeline, TLEvent{AtMs: T + back, Kind: "repl_fix", Host: victim})
		sp.Timeline = append(sp.Timeline, TLEvent{AtMs: T + back + 50, Kind: "sql", Host: victim, Arg: "START SLAVE FOR CHANNEL ''"})
	case "io_stopped":
		sp.Timeline = append(sp.Timeline, TLEvent{AtMs: T, Kind: "sql", Host: victim, Arg: stopIO})
	case "errant":
		sp.Timeline = append(sp.Timeline, TLEvent{AtMs: T, Kind: "errant_txn", Host: victim, N: 1})
	case "download_lag":
		sp.hostSpecByName(victim).Init = &InitState{Down: true, SSSlave: pb(false)}
		sp.Timeline = append(sp.Timeline, TLEvent{AtMs: 6000, Kind: "big_txn", N: 200000})
		sp.Timeline = append(sp.Timeline, TLEvent{AtMs: 7000, Kind: "big_txn", N: 200000})
		sp.Timeline = append(sp.Timeline, TLEvent{AtMs: T - 100, Kind: "fetch_bytes", Host: victim, N: int64(r.pickInt(1, 3000, 30000))})
		sp.Timeline = append(sp.Timeline, TLEvent{AtMs: T, Kind: "start_mysql", Host: victim})
		sp.Timeline = append(sp.Timeline, TLEvent{AtMs: T + back, Kind: "fetch_bytes", Host: victim, N: 0})
	case "return_to_lone_master":
		for _, h := range ha[1:] {
			sp.hostSpecByName(h).Init = &InitState{Down: true}
		}
		for i, h := range ha[1:] {
			sp.Timeline = append(sp.Timeline, TLEvent{AtMs: T + int64(i)*int64(r.pickInt(0, 300, 2500)), Kind: "start_mysql", Host: h})
		}
	case "recovery_mark":
		sp.Timeline = append(sp.Timeline, TLEvent{AtMs: T, Kind: "zk_set", Arg: "/test/recovery/" + victim, Arg2: "null"})
		sp.Timeline = append(sp.Timeline, TLEvent{AtMs: T + back, Kind: "zk_delete", Arg: "/test/recovery/" + victim})
	case "cascade_conversion":
		sp.Timeline = append(sp.Timeline, TLEvent{AtMs: T, Kind: "cli_host_add", Host: master, Arg: victim, Arg2: ha[1+(r.intn(len(ha)-1))%(len(ha)-1)], N: 1})
	case "two_die":
		for _, h := range ha[1:] {
			if r.chance(0.7) {
				sp.Timeline = append(sp.Timeline, TLEvent{AtMs: T + int64(r.intn(1500)), Kind: "kill_mysql", Host: h, Fault: true, DurMs: back + int64(r.intn(8000))})
			}
		}
	}
	_ = master
	// interruption of the reacting iteration
	mode := []string{"none", "after", "after", "fail", "before", "kill_master_mysql", "kill_master_after_replica_mutation"}[(index/12)%7]
	if mode != "none" {
		n := 1 + (index/72)%45 + r.intn(3)
		arm := T
		if r.chance(0.4) {
			arm = T + c.InactivationDelayMs + int64(r.intn(int(c.TickMs)))
		}
		if r.chance(0.3) {
			arm = T + back
		}
		sp.CrashAt = &CrashAt{N: n, Mode: mode, ArmAfterMs: arm, RestartMs: int64(r.pickInt(0, 2000, 8000))}
		if mode == "kill_master_mysql" {
			// aim at the iteration that evicts: the victim has been dead for the inactivation delay
			sp.CrashAt.ArmAfterMs = T + c.InactivationDelayMs + 2*c.HealthMs + c.SessionTimeoutMs - int64(r.intn(int(c.TickMs)))
			sp.CrashAt.N = 20 + r.intn(40)
			sp.CrashAt.RestartMs = int64(r.pickInt(3000, 10000))
		}
		if mode == "kill_master_after_replica_mutation" {
			// armed from the transition on: fires in whatever iteration first changes a replica
			sp.CrashAt.ArmAfterMs = T
			if r.chance(0.5) {
				sp.CrashAt.ArmAfterMs = T + c.InactivationDelayMs - c.TickMs
			}
			sp.CrashAt.N = 1 + r.intn(3)
			sp.CrashAt.RestartMs = int64(r.pickInt(3000, 10000))
		}
		if sp.CrashAt.RestartMs == 0 && mode != "fail" && len(ha) == 2 {
			sp.CrashAt.RestartMs = 3000
		}
	}
	sp.World.AutoResetupMs = 0
	sp.Variant = fmt.Sprintf("%s victim=%s nHA=%d w=%d master_first=%v interrupt=%s", trans, victim, len(ha), c.WaitSlaveCount, c.MasterFirstSSOrder, mode)
	if sp.CrashAt != nil {
		sp.Variant += fmt.Sprintf(" n=%d arm=%d", sp.CrashAt.N, sp.CrashAt.ArmAfterMs)
	}
	sp.DurationMs = T + back + 45000
	sp.Primary = []string{"C04"}
	return sp
}
