package verifsim

import "fmt"

// family gates (C05)
func genGates(r *rng, index int) *Spec {
	sp := baseSpec(r, shapeOpt{minHA: 2, maxHA: 4, cascade: 0.15})
	c := &sp.Cfg
	ha := sp.haNames()
	master := ha[0]
	c.Failover = index%7 != 6
	c.FailoverDelayMs = []int64{0, 5000, 15000}[index%3]
	c.FailoverCooldownMs = []int64{0, 60000, 3600000}[(index/3)%3]
	c.ResetupCrashedHosts = (index/9)%2 == 1
	c.TickMs = int64(r.pickInt(1000, 2000))
	T0 := int64(15000 + r.intn(4000))
	// who is manager: let another host start first in half of the runs
	if r.chance(0.5) {
		sp.Hosts[1].StartDelayMs = 40
		sp.Hosts[0].StartDelayMs = 2500
	}
	// pre-seeded last_switch
	if c.FailoverCooldownMs > 0 || r.chance(0.3) {
		cause := r.pick("auto", "auto", "manual")
		age := []int64{10000, 120000, 7200000}[r.intn(3)]
		fin := simTimeRFC(T0 - age)
		js := fmt.Sprintf(`{"from":"hX","to":"","cause":%q,"initiated_by":"hX","initiated_at":%q,"master_transition":"failover","started_by":"hX","started_at":%q,"result":{"ok":true,"error":"","finished_at":%q}}`, cause, fin, fin, fin)
		sp.Timeline = append(sp.Timeline, TLEvent{AtMs: 50, Kind: "zk_set", Arg: "/test/last_switch", Arg2: js})
	}
	// maintenance
	maint := []string{"none", "none", "none", "full", "light"}[r.intn(5)]
	if cn := index % 11; (cn == 6 || cn == 10) && c.ResetupCrashedHosts {
		// the crash-recovery cause of failover is judged at another place than the plain one
		maint = []string{"none", "light", "light", "full"}[r.intn(4)]
	}
	if maint != "none" {
		sp.Timeline = append(sp.Timeline, TLEvent{AtMs: T0 - int64(r.pickInt(300, 3000, 8000)), Kind: "cli_maint_on", Host: ha[len(ha)-1], Arg: maint})
	}
	// pending request
	if r.chance(0.1) {
		js := fmt.Sprintf(`{"from":"","to":%q,"cause":"worker","initiated_by":"worker","initiated_at":%q,"master_transition":"switchover","started_by":"","started_at":"0001-01-01T00:00:00Z","result":null}`, ha[1], simTimeRFC(T0-500))
		sp.Timeline = append(sp.Timeline, TLEvent{AtMs: T0 - 500, Kind: "zk_set", Arg: "/test/switch", Arg2: js})
	}
	// replicas
	for _, h := range ha[1:] {
		switch r.intn(8) {
		case 0:
			sp.Timeline = append(sp.Timeline, TLEvent{AtMs: T0 - int64(r.pickInt(200, 4000, 9000)), Kind: "sql", Host: h, Arg: "STOP SLAVE FOR CHANNEL ''"})
		case 1:
			sp.Timeline = append(sp.Timeline, TLEvent{AtMs: T0 - int64(r.pickInt(200, 4000, 9000)), Kind: "kill_mysql", Host: h, Fault: true, DurMs: int64(r.pickInt(0, 20000))})
		case 2:
			sp.Timeline = append(sp.Timeline, TLEvent{AtMs: 5000, Kind: "apply_delay", Host: h, N: 1500})
		}
	}
	// active list
	switch r.intn(8) {
	case 0:
		sp.Timeline = append(sp.Timeline, TLEvent{AtMs: T0 - 200, Kind: "zk_set", Arg: "/test/active_nodes", Arg2: fmt.Sprintf(`[%q]`, master)})
	case 1:
		sp.Timeline = append(sp.Timeline, TLEvent{AtMs: T0 - 200, Kind: "zk_set", Arg: "/test/active_nodes", Arg2: `[]`})
	case 2:
		sp.Timeline = append(sp.Timeline, TLEvent{AtMs: T0 - 200, Kind: "zk_set", Arg: "/test/active_nodes", Arg2: `not json`})
	case 3:
		sp.Timeline = append(sp.Timeline, TLEvent{AtMs: T0 - 200, Kind: "zk_delete", Arg: "/test/active_nodes"})
	}
	// master condition
	cond := []string{"healthy", "mysql_dead", "host_dead", "isolated_from_manager", "isolated_from_zk", "fs_ro", "crash_recovered", "flapping", "manager_change", "mysql_dead", "crash_flag_brief_outage"}[index%11]
	long := int64(r.pickInt(40000, 60000))
	switch cond {
	case "mysql_dead":
		sp.Timeline = append(sp.Timeline, TLEvent{AtMs: T0, Kind: "kill_mysql", Host: master, Fault: true, DurMs: int64(r.pickInt(0, 3000, 12000, 40000))})
	case "host_dead":
		sp.Timeline = append(sp.Timeline, TLEvent{AtMs: T0, Kind: "kill_host", Host: master, Fault: true, DurMs: int64(r.pickInt(0, 12000, 40000))})
	case "isolated_from_manager":
		other := ha[1]
		sp.Timeline = append(sp.Timeline, TLEvent{AtMs: T0, Kind: "cut", Host: other, Host2: master, Arg: r.pick("blackhole", "reject"), Fault: true, DurMs: long})
		for _, h := range ha[2:] {
			if r.chance(0.5) {
				sp.Timeline = append(sp.Timeline, TLEvent{AtMs: T0, Kind: "cut", Host: h, Host2: master, Arg: "reject", Fault: true, DurMs: long})
			}
		}
	case "isolated_from_zk":
		sp.Timeline = append(sp.Timeline, TLEvent{AtMs: T0, Kind: "cut", Host: master, Host2: "zk", Arg: r.pick("blackhole", "reject"), Fault: true, DurMs: long})
	case "fs_ro":
		sp.Timeline = append(sp.Timeline, TLEvent{AtMs: T0, Kind: "fs_ro", Host: master, N: 1, Fault: true})
	case "crash_recovered":
		sp.Timeline = append(sp.Timeline, TLEvent{AtMs: T0, Kind: "kill_host", Host: master, Arg: "crash_recovery", Fault: true, DurMs: int64(r.pickInt(3000, 8000))})
	case "crash_flag_brief_outage":
		// mysqld was restarted after a crash some time ago (its error log carries the crash-recovery
		// line, the health record the flag); now a short plain outage, shorter than the failover delay
		sp.Timeline = append(sp.Timeline, TLEvent{AtMs: T0 - 9000, Kind: "kill_mysql", Host: master, Arg: "crash_recovery", Fault: true, DurMs: int64(r.pickInt(800, 1500))})
		d := c.FailoverDelayMs/2 + int64(r.pickInt(500, 1500))
		sp.Timeline = append(sp.Timeline, TLEvent{AtMs: T0, Kind: "kill_mysql", Host: master, Fault: true, DurMs: d})
	case "flapping":
		d1 := c.FailoverDelayMs/2 + 500
		sp.Timeline = append(sp.Timeline, TLEvent{AtMs: T0, Kind: "kill_mysql", Host: master, Fault: true, DurMs: d1})
		sp.Timeline = append(sp.Timeline, TLEvent{AtMs: T0 + d1 + int64(r.pickInt(3000, 6000)), Kind: "kill_mysql", Host: master, Fault: true, DurMs: 0})
	case "manager_change":
		sp.Timeline = append(sp.Timeline, TLEvent{AtMs: T0, Kind: "kill_mysql", Host: master, Fault: true})
		sp.Timeline = append(sp.Timeline, TLEvent{AtMs: T0 + c.FailoverDelayMs/2 + 300, Kind: "kill_daemon", Host: ha[r.intn(2)], Fault: true, DurMs: int64(r.pickInt(2000, 10000))})
	}
	sp.World.AutoResetupMs = 15000
	sp.Variant = fmt.Sprintf("cond=%s failover=%v delay=%d cooldown=%d resetup=%v maint=%s nHA=%d", cond, c.Failover, c.FailoverDelayMs, c.FailoverCooldownMs, c.ResetupCrashedHosts, maint, len(ha))
	sp.DurationMs = T0 + 70000
	sp.Primary = []string{"C05"}
	return sp
}
