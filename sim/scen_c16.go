package verifsim

import "fmt"

// family cascade (C16)
func genCascade(r *rng, index int) *Spec {
	kind := (index / 3) % 13
	minHA := 2
	if kind == 12 {
		minHA = 3
	}
	sp := baseSpec(r, shapeOpt{minHA: minHA, maxHA: 3})
	c := &sp.Cfg
	ha := sp.haNames()
	master := ha[0]
	nC := 1 + index%3
	var cs []string
	for i := 0; i < nC; i++ {
		cs = append(cs, fmt.Sprintf("c%d", i+1))
	}
	sf := map[string]string{}
	label := ""
	switch kind {
	case 0:
		label = "all_from_ha_replica"
		for _, x := range cs {
			sf[x] = ha[1+r.intn(len(ha)-1)]
		}
	case 1:
		label = "chain"
		sf["c1"] = ha[len(ha)-1]
		for i := 1; i < nC; i++ {
			sf[cs[i]] = cs[i-1]
		}
	case 2:
		label = "cycle"
		for i := 0; i < nC; i++ {
			sf[cs[i]] = cs[(i+1)%nC]
		}
	case 3:
		label = "self"
		sf["c1"] = "c1"
		for i := 1; i < nC; i++ {
			sf[cs[i]] = cs[r.intn(nC)]
		}
	case 4:
		label = "unregistered"
		sf["c1"] = "ghost"
		for i := 1; i < nC; i++ {
			sf[cs[i]] = cs[i-1]
		}
	case 5:
		label = "from_master"
		for _, x := range cs {
			sf[x] = master
		}
		if nC > 1 {
			sf[cs[nC-1]] = "c1"
		}
	case 6:
		label = "tree"
		sf["c1"] = ha[1]
		for i := 1; i < nC; i++ {
			sf[cs[i]] = "c1"
		}
	case 7:
		label = "random"
		all := append(append([]string{}, ha...), cs...)
		all = append(all, "ghost")
		for _, x := range cs {
			sf[x] = all[r.intn(len(all))]
		}
	case 8:
		label = "quorum"
		for _, x := range cs {
			sf[x] = master
		}
	case 9:
		// the configured source turns unhealthy-but-serving while the replica streams from it:
		// "or is what it already streams from" - the replica stays
		label = "streams_from_unhealthy"
		sf["c1"] = ha[1]
		for i := 1; i < nC; i++ {
			sf[cs[i]] = "c1"
		}
	case 10:
		// the configured source comes back behind the replica that moved away meanwhile
		label = "source_returns_behind"
		sf["c1"] = ha[1]
		for i := 1; i < nC; i++ {
			sf[cs[i]] = []string{"c1", ha[1]}[r.intn(2)]
		}
	case 12:
		// a member of the active list is re-registered as a cascade replica and, before the list
		// could be recomputed, the master dies or a switchover is asked for
		label = "active_member_becomes_cascade"
		for _, x := range cs {
			sf[x] = ha[1]
		}
	case 11:
		// a cascade replica answers the manager with "too many connections" (or refuses its
		// login) while the HA group changes its master: it has no say in that
		label = "cascade_refuses_logins"
		sf["c1"] = ha[1+r.intn(len(ha)-1)]
		for i := 1; i < nC; i++ {
			sf[cs[i]] = []string{"c1", ha[1+r.intn(len(ha)-1)]}[r.intn(2)]
		}
	}
	for _, x := range cs {
		h := HostSpec{Name: x, Role: "cascade", StreamFrom: sf[x]}
		src := sf[x]
		valid := false
		for _, y := range append(append([]string{}, ha...), cs...) {
			if y == src && y != x {
				valid = true
			}
		}
		if !valid || kind == 2 || (r.chance(0.3) && kind < 9) {
			src = master
		}
		h.Init = &InitState{Source: ps(src)}
		sp.Hosts = append(sp.Hosts, h)
	}
	c.Failover = false
	c.AggressiveRepair = false
	c.StreamFromReasonableLagMs = int64(r.pickInt(0, 60000, 60000))
	reasonable := int64(300)
	if c.StreamFromReasonableLagMs > 0 {
		reasonable = c.StreamFromReasonableLagMs / 1000
	}
	c.CustomLagQuery = r.chance(0.7)
	c.OfflineMaxPct = 100
	c.OfflineEnableLagMs = int64(r.pickInt(600000, 3600000))
	c.OfflineDisableLagMs = 30000
	c.OptHighMs, c.OptLowMs = 100000000, 90000000
	sp.World.AutoResetupMs = 0
	T := int64(8000)
	// ancestors: everything some cascade replica may resolve through
	anc := map[string]bool{}
	for _, x := range cs {
		if sf[x] != "" && sf[x] != "ghost" && sf[x] != master {
			anc[sf[x]] = true
		}
	}
	var ancs []string
	for _, h := range append(append([]string{}, ha[1:]...), cs...) {
		if anc[h] {
			ancs = append(ancs, h)
		}
	}
	if kind == 8 {
		// the master loses ZooKeeper and the manager, every HA replica keeps replicating: cascade
		// replicas must not tip the "all replicas stream" veto nor the quorum
		c.Failover = true
		c.FailoverDelayMs = int64(r.pickInt(0, 2000))
		c.FailoverCooldownMs = 0
		sp.Hosts[0].StartDelayMs = 4000 // the manager is another host
		at := T + int64(r.intn(4000))
		switch r.intn(3) {
		case 0:
			sp.Timeline = append(sp.Timeline, TLEvent{AtMs: at, Kind: "cut", Host: master, Host2: "zk", Fault: true, DurMs: int64(r.pickInt(15000, 30000))})
		case 1:
			// the master's daemon dies, its mysqld lives on
			sp.Timeline = append(sp.Timeline, TLEvent{AtMs: at, Kind: "kill_daemon", Host: master, Fault: true, DurMs: int64(r.pickInt(0, 25000))})
		case 2:
			// one HA replica down as well: alive HA replicas below quorum, cascade alive
			sp.Timeline = append(sp.Timeline, TLEvent{AtMs: at - 3000, Kind: "kill_mysql", Host: ha[len(ha)-1], Fault: true})
			sp.Timeline = append(sp.Timeline, TLEvent{AtMs: at, Kind: "kill_mysql", Host: master, Fault: true, DurMs: int64(r.pickInt(0, 20000))})
		}
		sp.Variant = fmt.Sprintf("%s nC=%d", label, nC)
		sp.DurationMs = at + 45000
		sp.Primary = []string{"C16"}
		return sp
	}
	if kind == 12 {
		x := ha[len(ha)-1]
		at := T + int64(r.intn(4000))
		sp.Timeline = append(sp.Timeline, TLEvent{AtMs: at, Kind: "cli_host_add", Host: ha[1], Arg: x, Arg2: ha[1]})
		gap := int64(r.pickInt(60, 200, 500, 900))
		what := ""
		c.WaitSlaveCount = 1
		c.SemiSync = true
		if r.chance(0.6) {
			c.Failover = true
			c.FailoverDelayMs = 0
			c.FailoverCooldownMs = 0
			sp.Hosts[0].StartDelayMs = 4000 // the manager is another host
			sp.Timeline = append(sp.Timeline, TLEvent{AtMs: at + gap, Kind: r.pick("kill_mysql", "kill_host"), Host: master, Fault: true})
			what = "master dies"
		} else {
			sp.Timeline = append(sp.Timeline, TLEvent{AtMs: at + gap, Kind: "cli_switch_from", Host: ha[1], Arg: master})
			// ... and the other remaining member is not available
			sp.Timeline = append(sp.Timeline, TLEvent{AtMs: at + gap - 30, Kind: "kill_mysql", Host: ha[1], Fault: true})
			what = "switch_from " + master + " with " + ha[1] + " down"
		}
		sp.Variant = fmt.Sprintf("%s nC=%d member=%s gap=%d %s@%d", label, nC, x, gap, what, at/1000)
		sp.DurationMs = at + 40000
		sp.Primary = []string{"C16"}
		return sp
	}
	if kind == 11 {
		n := 1 + r.intn(nC)
		errno := r.pickInt(1040, 1040, 1045, 1203, 1129)
		prefix := r.pick("SELECT 1 AS Ok", "")
		for i := 0; i < n; i++ {
			sp.StmtFail = append(sp.StmtFail, StmtFail{Host: cs[i], Prefix: prefix, Errno: errno, FromMs: T - int64(r.intn(3000)), ToMs: 100000000})
		}
		at := T + int64(r.intn(5000))
		what := ""
		switch r.intn(4) {
		case 0:
			to := ha[1+r.intn(len(ha)-1)]
			sp.Timeline = append(sp.Timeline, TLEvent{AtMs: at, Kind: "cli_switch_to", Host: ha[r.intn(len(ha))], Arg: to})
			what = "switch_to " + to
		case 1:
			sp.Timeline = append(sp.Timeline, TLEvent{AtMs: at, Kind: "cli_switch_from", Host: ha[r.intn(len(ha))], Arg: master})
			what = "switch_from " + master
		default:
			c.Failover = true
			c.FailoverDelayMs = int64(r.pickInt(0, 2000))
			c.FailoverCooldownMs = 0
			sp.Hosts[0].StartDelayMs = 4000 // the manager is another host
			sp.Timeline = append(sp.Timeline, TLEvent{AtMs: at, Kind: r.pick("kill_mysql", "kill_host"), Host: master, Fault: true, DurMs: int64(r.pickInt(0, 0, 40000))})
			what = "master dies"
		}
		sp.Variant = fmt.Sprintf("%s nC=%d refusing=%d errno=%d all_statements=%v %s@%d map=%v", label, nC, n, errno, prefix == "", what, at/1000, sf)
		sp.HealAtMs = at
		sp.LivenessMs = sp.boundMs()
		sp.DurationMs = sp.HealAtMs + sp.LivenessMs
		sp.Primary = []string{"C16"}
		return sp
	}
	nEv := r.rangeInt(1, 3)
	var script []string
	if kind == 9 {
		c.CustomLagQuery = true
		c.OfflineEnableLagMs = 3600000
		x := []string{ha[1], "c1"}[r.intn(2)]
		if nC == 1 {
			x = ha[1]
		}
		at := T + int64(r.intn(6000))
		lv := []int64{reasonable, reasonable + 1, 5 * reasonable, 4000}[r.intn(4)]
		sp.Timeline = append(sp.Timeline, TLEvent{AtMs: at, Kind: "lag", Host: x, N: lv})
		if r.chance(0.5) {
			sp.Timeline = append(sp.Timeline, TLEvent{AtMs: at + int64(r.pickInt(9000, 20000)), Kind: "lag", Host: x, N: 3})
		}
		script = append(script, fmt.Sprintf("lag(%s)=%d@%d", x, lv, at/1000))
		nEv = r.intn(2)
	}
	if kind == 10 {
		c.CustomLagQuery = false
		x := ha[1]
		at := T + int64(r.intn(4000))
		dur := int64(r.pickInt(8000, 14000, 20000))
		sp.Timeline = append(sp.Timeline, TLEvent{AtMs: at, Kind: "kill_mysql", Host: x, Fault: true, DurMs: dur})
		sp.Timeline = append(sp.Timeline, TLEvent{AtMs: at + 100, Kind: "apply_delay", Host: x, N: int64(r.pickInt(8000, 15000, 25000))})
		sp.World.ClientWriteMs = int64(r.pickInt(300, 700))
		script = append(script, fmt.Sprintf("down_then_slow(%s)@%d+%d", x, at/1000, dur/1000))
		nEv = 0
	}
	for i := 0; i < nEv && len(ancs) > 0; i++ {
		x := ancs[r.intn(len(ancs))]
		at := T + int64(r.intn(6000))
		dur := int64(r.pickInt(6000, 12000, 25000, 0))
		ek := r.intn(12)
		switch ek {
		case 0, 1:
			sp.Timeline = append(sp.Timeline, TLEvent{AtMs: at, Kind: "kill_mysql", Host: x, Fault: true, DurMs: dur})
			if dur > 0 && r.chance(0.5) {
				// comes back slowly: behind the replicas that moved away meanwhile
				sp.Timeline = append(sp.Timeline, TLEvent{AtMs: at + 100, Kind: "apply_delay", Host: x, N: int64(r.pickInt(3000, 8000, 20000))})
			}
			script = append(script, fmt.Sprintf("down(%s)@%d+%d", x, at/1000, dur/1000))
		case 2, 9, 10, 11:
			if c.CustomLagQuery {
				lv := []int64{reasonable - 1, reasonable, reasonable + 1, 5 * reasonable, 100000}[r.intn(5)]
				sp.Timeline = append(sp.Timeline, TLEvent{AtMs: at, Kind: "lag", Host: x, N: lv})
				if dur > 0 {
					sp.Timeline = append(sp.Timeline, TLEvent{AtMs: at + dur, Kind: "lag", Host: x, N: int64(r.pickInt(0, 5))})
				}
				script = append(script, fmt.Sprintf("lag(%s)=%d@%d+%d", x, lv, at/1000, dur/1000))
			} else {
				sp.Timeline = append(sp.Timeline, TLEvent{AtMs: at, Kind: "apply_delay", Host: x, N: (reasonable + 30) * 1000})
				script = append(script, fmt.Sprintf("delay(%s)@%d", x, at/1000))
			}
		case 3:
			sp.Timeline = append(sp.Timeline, TLEvent{AtMs: at, Kind: "repl_error", Host: x, N: int64(r.pickInt(1236, 1146)), Arg: []string{"io", "sql"}[r.intn(2)]})
			if dur > 0 {
				sp.Timeline = append(sp.Timeline, TLEvent{AtMs: at + dur, Kind: "repl_fix", Host: x})
			}
			script = append(script, fmt.Sprintf("broken(%s)@%d+%d", x, at/1000, dur/1000))
		case 4:
			sp.Timeline = append(sp.Timeline, TLEvent{AtMs: at, Kind: "kill_host", Host: x, Fault: true, DurMs: dur})
			script = append(script, fmt.Sprintf("host_down(%s)@%d+%d", x, at/1000, dur/1000))
		case 5:
			sp.Timeline = append(sp.Timeline, TLEvent{AtMs: at, Kind: "isolate", Host: x, Fault: true, DurMs: dur})
			script = append(script, fmt.Sprintf("isolated(%s)@%d+%d", x, at/1000, dur/1000))
		case 6:
			sp.Timeline = append(sp.Timeline, TLEvent{AtMs: at, Kind: "sql", Host: x, Arg: "STOP SLAVE FOR CHANNEL ''"})
			script = append(script, fmt.Sprintf("stopped(%s)@%d", x, at/1000))
		case 7:
			// the cascade replica's own replication stops / its status cannot be read
			y := cs[r.intn(nC)]
			sp.StmtFail = append(sp.StmtFail, StmtFail{Host: y, Prefix: "SHOW ", Errno: 1105, FromMs: at, ToMs: at + int64(r.pickInt(100, 2500, 6000))})
			script = append(script, fmt.Sprintf("status_unreadable(%s)@%d", y, at/1000))
		case 8:
			sp.Timeline = append(sp.Timeline, TLEvent{AtMs: at, Kind: "cli_switch_to", Host: ha[1], Arg: ha[1], DurMs: 60000})
			script = append(script, fmt.Sprintf("switchover@%d", at/1000))
		}
	}
	if r.chance(0.25) {
		sp.Rates = RateSpec{FromMs: T, ToMs: T + 15000, SQLErr: 0.01, SQLLost: 0.005, SQLHang: 0.003}
	}
	sp.Variant = fmt.Sprintf("%s nC=%d map=%v reasonable=%d custom_lag=%v %v", label, nC, sf, reasonable, c.CustomLagQuery, script)
	sp.DurationMs = T + 31000 + 12*c.TickMs + 12000
	sp.Primary = []string{"C16"}
	return sp
}
