//go:build !race

package verifsim

func raceDisable() {}
func raceEnable()  {}

const watchdogScale = 1
