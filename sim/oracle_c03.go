package verifsim

import (
	"fmt"
	"strings"
	"time"
)

// C03 part 2 (engine A): only the lock holder acts; promotion re-confirms the lock.
type orC03A struct {
	baseOracle
	lockLostAt map[string]time.Duration // incarnation -> instant its ownership of the lock znode ended (server truth)
	ownedEver  map[string]bool
	ownedSess  map[string]int64         // incarnation -> session in which it last created the lock znode
	newSessAt  map[string]time.Duration // incarnation -> instant its latest session was established
	newSess    map[string]int64
}

func (o *orC03A) name() string { return "C03A" }

func (o *orC03A) onZK(e *ZKEvent) {
	if e.Op == "session_new" {
		if o.newSessAt == nil {
			o.newSessAt = map[string]time.Duration{}
			o.newSess = map[string]int64{}
		}
		o.newSessAt[e.Inc] = e.T
		o.newSess[e.Inc] = e.Sess
	}
	o.onZKEventWrite(e)
	if e.Err != 0 || e.Path != "/test/manager" {
		return
	}
	if o.lockLostAt == nil {
		o.lockLostAt = map[string]time.Duration{}
		o.ownedEver = map[string]bool{}
	}
	switch e.Op {
	case "create":
		o.ownedEver[e.Inc] = true
		if o.ownedSess == nil {
			o.ownedSess = map[string]int64{}
		}
		o.ownedSess[e.Inc] = e.Sess
		delete(o.lockLostAt, e.Inc)
	case "delete":
		// e.Inc is the session owner for expiry-driven deletes, the issuer for explicit ones;
		// the znode's owner is what matters: everybody who is not the new owner lost it
		for inc := range o.ownedEver {
			if _, lost := o.lockLostAt[inc]; !lost && o.m.lockOwner != inc {
				o.lockLostAt[inc] = o.m.s.now()
			}
		}
	}
}

func managerOnlyPath(rel string) bool {
	switch {
	case rel == "master", rel == "active_nodes", rel == "last_switch", rel == "last_rejected_switch", rel == "switch", rel == "maintenance", rel == "low_space":
		return true
	case strings.HasPrefix(rel, "recovery/"):
		return true
	}
	return false
}

func (o *orC03A) checkActor(inc, what string, it *iterRec) {
	m := o.m
	if !m.isDaemon(inc) {
		return
	}
	if it == nil {
		m.violate("C03", "act_outside_handler", "cluster-wide-action-outside-state-handler:"+what, fmt.Sprintf("%s performed %s outside any state handler invocation", inc, what))
		return
	}
	if !it.ownedLock {
		m.violate("C03", "act_without_lock", "cluster-wide-action-without-lock:"+what, fmt.Sprintf("%s performed %s in a %s iteration during which it never owned the lock znode (owner=%q)", inc, what, it.state, m.lockOwner))
	}
}

func (o *orC03A) onZKWrite(e *ZKEvent) {}

func (o *orC03A) onSQL(ev *SQLEvent) {
	m := o.m
	if !m.isDaemon(ev.Src) {
		return
	}
	if ev.Mutating && ev.Dst != srcHostOf(ev.Src) {
		m.probe("c03_remote_mutation_checked")
		o.checkActor(ev.Src, "remote:"+ev.Kind, ev.It)
		// the switchover re-confirms the lock after catch-up: a process whose lock-owning session
		// is gone and which had already established a new session (so it knows, and a re-check
		// would have asked ZooKeeper) before its last catch-up poll does not go on re-pointing
		if it := ev.It; it != nil && it.state == "Manager" && m.lockOwner != ev.Src && ev.InSwitch {
			if ls, ok := o.ownedSess[ev.Src]; ok && o.newSess[ev.Src] != 0 && o.newSess[ev.Src] != ls {
				// catch-up polls = reads of gtid_executed after this attempt's last freeze statement
				var p2 time.Duration = -1
				var lastFreeze uint64
				for _, e := range it.sql {
					if e.Src == ev.Src && e.Seq < ev.Seq && (strings.HasPrefix(e.Query, "STOP SLAVE IO_THREAD") || strings.HasPrefix(e.Query, "STOP REPLICA IO_THREAD")) {
						lastFreeze = e.Seq
					}
				}
				for _, e := range it.sql {
					if lastFreeze > 0 && e.Src == ev.Src && e.Seq > lastFreeze && e.Seq < ev.Seq && strings.HasPrefix(e.Query, "SELECT @@GLOBAL.gtid_executed") && e.toldOK() {
						p2 = e.T
					}
				}
				if _, sw := lastReadIn(it, "switch", ev.Seq); sw && p2 >= 0 && o.newSessAt[ev.Src] < p2 {
					m.probe("c03_act_after_recheck_point_seen")
					m.violate("C03", "no_recheck_after_catchup", "switchover-went-on-after-catch-up-without-the-lock", fmt.Sprintf("%s sent %q to %s at %v; its lock-owning session %x is gone, it has been in session %x since %v, before its last catch-up poll at %v (owner=%q)", ev.Src, ev.Query, ev.Dst, ev.T, ls, o.newSess[ev.Src], o.newSessAt[ev.Src], p2, m.lockOwner))
				}
			}
		}
	}
	// (e) promotion re-confirms the lock
	if ev.Applied && ev.Query == "SET GLOBAL read_only = 0" && ev.Dst != m.master {
		lost, isLost := o.lockLostAt[ev.Src]
		if m.lockOwner == ev.Src || !isLost {
			return
		}
		it := ev.It
		if it == nil {
			return
		}
		// P2: delivery time of the manager's last catch-up poll on the promoted host
		var p2 time.Duration = -1
		for _, e := range it.sql {
			if e.Dst == ev.Dst && strings.HasPrefix(e.Query, "SELECT @@GLOBAL.gtid_executed") {
				p2 = e.T
			}
		}
		m.probe("c03_promotion_after_lock_loss_seen")
		if p2 >= 0 && lost < p2 {
			m.violate("C03", "promote_after_lock_loss", "promotion-although-lock-lost-before-last-recheck",
				fmt.Sprintf("%s promoted %s at %v; its lock ownership ended at %v, before its last catch-up poll at %v", ev.Src, ev.Dst, ev.T, lost, p2))
		}
	}
}

func (o *orC03A) onZKEventWrite(e *ZKEvent) {
	m := o.m
	if e.Err != 0 || !m.isDaemon(e.Inc) {
		return
	}
	if e.Op != "set" && e.Op != "create" && e.Op != "delete" {
		return
	}
	if strings.HasPrefix(e.Data, "<session_") { // ephemeral cleanup by the server
		return
	}
	rel := strings.TrimPrefix(e.Path, "/test/")
	if !managerOnlyPath(rel) {
		return
	}
	if strings.HasPrefix(rel, "recovery/") && e.Op == "delete" {
		return // cleared by the host itself (C11)
	}
	m.probe("c03_manager_write_checked")
	// a manager-only write issued in a session other than the one that created the lock znode:
	// the lock was bound to the lost session, the process knows its session changed and has not
	// re-acquired - it does not hold the lock whatever it was told before
	if ls, ok := o.ownedSess[e.Inc]; ok && e.Sess != 0 && ls != e.Sess && m.lockOwner != e.Inc {
		what := strings.SplitN(rel, "/", 2)[0]
		if rel == "switch" && e.Op == "create" {
			what = "switch-recreated" // a request that was gone comes back (cf. fix 9e7ba1e)
		}
		m.violate("C03", "act_after_session_loss", "manager-write-replayed-in-new-session-without-lock:"+what, fmt.Sprintf("%s %s %s in session %x; it held the lock in session %x, which is gone, and has not re-acquired it (owner=%q)", e.Inc, e.Op, e.Path, e.Sess, ls, m.lockOwner))
	}
	var it *iterRec
	if x := m.iters[e.Inc]; x != nil && x.open {
		it = x
	}
	o.checkActor(e.Inc, "zk:"+e.Op+":"+strings.SplitN(rel, "/", 2)[0], it)
}
