package verifsim

import "fmt"

// family recovery (C11)
func genRecovery(r *rng, index int) *Spec {
	sp := baseSpec(r, shapeOpt{minHA: 2, maxHA: 4, cascade: 0.1})
	c := &sp.Cfg
	c.FailoverCooldownMs = 0
	c.FailoverDelayMs = int64(r.pickInt(0, 2000, 5000))
	c.ForceSwitchover = r.chance(0.15)
	c.RecoveryMs = int64(r.pickInt(1000, 2000, 3000))
	ha := sp.haNames()
	M := ha[0]
	T0 := int64(15000 + r.intn(5000))
	state := []string{"clean", "equal", "unreplicated_tail", "diverged", "dead_during", "stuck_waiters", "repl_error_after", "failover_returns", "isolated_returns", "clean", "claims_master", "claims_master"}[index%12]
	how := "switch_from"
	if state == "claims_master" {
		// a replica is detached by hand and is found claiming to be master beside the recorded one;
		// in some runs the statements that turn it back into a replica fail part of the way
		x := ha[1+r.intn(len(ha)-1)]
		at := T0
		opSQL(sp, &at, x, "STOP SLAVE FOR CHANNEL ''")
		opSQL(sp, &at, x, "RESET SLAVE ALL FOR CHANNEL ''")
		flav := r.intn(4)
		if flav >= 1 {
			opSQL(sp, &at, x, "SET GLOBAL read_only = 0")
		}
		if flav >= 2 {
			sp.Timeline = append(sp.Timeline, TLEvent{AtMs: at + 20, Kind: "errant_txn", Host: x, N: 1})
		}
		fail := r.pick("none", "start_after_change", "start_after_change", "change", "offline")
		switch fail {
		case "start_after_change":
			sp.StmtFail = append(sp.StmtFail, StmtFail{Host: x, Prefix: "START ", After: "CHANGE ", Errno: r.pickInt(1872, 2013, 1105), FromMs: T0, ToMs: T0 + int64(r.pickInt(1500, 6000, 80000))})
		case "change":
			sp.StmtFail = append(sp.StmtFail, StmtFail{Host: x, Prefix: "CHANGE ", Errno: 1105, FromMs: T0, ToMs: T0 + int64(r.pickInt(1500, 6000))})
		case "offline":
			sp.StmtFail = append(sp.StmtFail, StmtFail{Host: x, Prefix: "SET GLOBAL offline_mode", Errno: 1105, FromMs: T0, ToMs: T0 + int64(r.pickInt(1500, 6000))})
		}
		sp.World.AutoResetupMs = int64(r.pickInt(0, 8000, 20000))
		sp.Variant = fmt.Sprintf("claims_master host=%s flavour=%d failing=%s nHA=%d semi=%v autoresetup=%d", x, flav, fail, len(ha), c.SemiSync, sp.World.AutoResetupMs)
		sp.DurationMs = T0 + 60000
		sp.Primary = []string{"C11"}
		return sp
	}
	switch state {
	case "clean", "equal":
		sp.Timeline = append(sp.Timeline, TLEvent{AtMs: T0, Kind: "cli_switch_from", Host: ha[r.intn(len(ha))], Arg: M})
	case "unreplicated_tail":
		// replicas stop fetching, master keeps acknowledging alone (async) or hangs; then it dies
		for _, h := range ha[1:] {
			sp.Timeline = append(sp.Timeline, TLEvent{AtMs: T0 - 1500, Kind: "fetch_bytes", Host: h, N: 1})
		}
		sp.Timeline = append(sp.Timeline, TLEvent{AtMs: T0 - 400, Kind: "errant_txn", Host: M, N: int64(r.rangeInt(1, 3))})
		sp.Timeline = append(sp.Timeline, TLEvent{AtMs: T0, Kind: "kill_mysql", Host: M, Fault: true, DurMs: int64(r.pickInt(8000, 20000))})
		for _, h := range ha[1:] {
			sp.Timeline = append(sp.Timeline, TLEvent{AtMs: T0 + 100, Kind: "fetch_bytes", Host: h, N: 0})
		}
		how = "failover"
	case "diverged":
		sp.Timeline = append(sp.Timeline, TLEvent{AtMs: T0 - int64(r.intn(300)), Kind: "errant_txn", Host: M, N: 1})
		sp.Timeline = append(sp.Timeline, TLEvent{AtMs: T0, Kind: "kill_mysql", Host: M, Fault: true, DurMs: int64(r.pickInt(8000, 20000))})
		if r.chance(0.6) {
			// it comes back with a slow applier: at the recovery checks it holds its own extra
			// transaction and still lacks what the new master has committed since (diverged both ways)
			sp.Timeline = append(sp.Timeline, TLEvent{AtMs: T0 + 100, Kind: "apply_delay", Host: M, N: int64(r.pickInt(15000, 40000))})
			sp.World.ClientWriteMs = int64(r.pickInt(300, 700))
		}
		how = "failover"
	case "dead_during":
		sp.Timeline = append(sp.Timeline, TLEvent{AtMs: T0, Kind: "cli_switch_from", Host: ha[1], Arg: M})
		sp.Timeline = append(sp.Timeline, TLEvent{AtMs: T0 + int64(r.intn(int(c.TickMs)+800)), Kind: "kill_mysql", Host: M, Fault: true, DurMs: int64(r.pickInt(5000, 20000))})
	case "stuck_waiters":
		// all replicas' IO threads stop: commits on M hang waiting for ACK; then switch away by force
		c.SemiSync = true
		for _, h := range ha[1:] {
			sp.Timeline = append(sp.Timeline, TLEvent{AtMs: T0 - 2500, Kind: "sql", Host: h, Arg: "STOP SLAVE IO_THREAD FOR CHANNEL ''"})
		}
		sp.Timeline = append(sp.Timeline, TLEvent{AtMs: T0, Kind: "cli_switch_from", Host: ha[1], Arg: M, N: 1})
		sp.World.ClientWriteMs = 300
	case "repl_error_after":
		sp.Timeline = append(sp.Timeline, TLEvent{AtMs: T0, Kind: "cli_switch_from", Host: ha[1], Arg: M})
		sp.Timeline = append(sp.Timeline, TLEvent{AtMs: T0 + int64(r.pickInt(300, 1500, 4000)), Kind: "repl_error", Host: M, N: int64(r.pickInt(1062, 1146, 1032)), Arg: "sql"})
	case "failover_returns":
		sp.Timeline = append(sp.Timeline, TLEvent{AtMs: T0, Kind: "kill_host", Host: M, Fault: true, DurMs: int64(r.pickInt(15000, 30000))})
		how = "failover"
	case "isolated_returns":
		sp.Timeline = append(sp.Timeline, TLEvent{AtMs: T0, Kind: "isolate", Host: M, Arg: r.pick("blackhole", "reject"), Fault: true, DurMs: int64(r.pickInt(20000, 40000))})
		how = "failover"
	}
	// the operator un-fences the old master for a moment while it is under recovery
	if r.chance(0.3) {
		// no client writes here: the node must stay clean, only not read-only
		sp.World.ClientWriteMs = 0
		for k := 0; k < 110; k++ {
			sp.Timeline = append(sp.Timeline, TLEvent{AtMs: T0 + 800 + int64(k)*410 + int64(r.intn(200)), Kind: "sql", Host: M, Arg: "SET GLOBAL read_only = 0"})
		}
	}
	// a further switchover interleaved with the recovery check
	if len(ha) >= 3 && r.chance(0.3) {
		sp.Timeline = append(sp.Timeline, TLEvent{AtMs: T0 + int64(r.pickInt(12000, 25000)), Kind: "cli_switch_to", Host: ha[1], Arg: ha[2]})
	}
	if r.chance(0.15) {
		sp.Timeline = append(sp.Timeline, TLEvent{AtMs: 100, Kind: "touch_resetup", Host: M})
	}
	sp.World.AutoResetupMs = int64(r.pickInt(0, 8000, 20000))
	if r.chance(0.3) {
		sp.Rates = RateSpec{FromMs: T0, ToMs: T0 + 30000, SQLErr: 0.01, SQLSlow: 0.02, ZKReset: 0.003}
	}
	sp.Variant = fmt.Sprintf("%s via %s nHA=%d semi=%v autoresetup=%d", state, how, len(ha), c.SemiSync, sp.World.AutoResetupMs)
	sp.DurationMs = T0 + 80000
	sp.Primary = []string{"C11"}
	return sp
}
