package verifsim

import (
	"encoding/json"
	"fmt"
	"regexp"
	"sort"
	"strings"
	"time"
)

// C16 - cascade replicas: source resolution terminates, never self, never quorum.
//
// The reference resolution is evaluated over the iteration window: an ancestor whose health was
// the same during the whole window (and to which no call of the manager failed) has a definite
// class, any other ancestor is "mixed" and admits both outcomes.
type orC16 struct {
	baseOracle
	health     map[string][]lagSample // per server: healthy from the current manager's standpoint (lag=1) or not (0)
	streaming  map[string][]string    // per cascade server: history of "source|running"
	streamT    map[string][]time.Duration
	masterHist []lagSample
	masters    []string
	lastChange time.Duration // last instant at which any health/streaming class changed (for the final check)
	swAt       time.Duration // when the pending switch request was filed
	haFailed   int           // calls to HA members that failed or were not answered since then
}

func (o *orC16) name() string { return "C16" }

var srcInSigRe = regexp.MustCompile(`ch=(true|false) src=(\S*) io=`)

func (o *orC16) reasonable() float64 {
	if v := o.m.s.spec.Cfg.StreamFromReasonableLagMs; v > 0 {
		return float64(v) / 1000
	}
	return 300
}

func (o *orC16) healthyNow(sv *Server, mgrHost string) bool {
	s := o.m.s
	if !sv.Up || sv.Offline {
		return false
	}
	if mgrHost != "" && s.net.blocked(mgrHost, sv.Name) {
		return false
	}
	if !sv.HasChannel {
		return true
	}
	if !sv.IORun || !sv.SQLRun || sv.IOConnecting {
		return false
	}
	var lag float64
	if s.spec.Cfg.CustomLagQuery && sv.LagOverride != nil {
		lag = *sv.LagOverride
	} else if l, ok := sv.lagSeconds(s.now()).(float64); ok {
		lag = l
	} else {
		return false
	}
	return lag < o.reasonable()
}

func (o *orC16) afterEvent() {
	m := o.m
	if !m.primary["C16"] {
		return
	}
	if o.health == nil {
		o.health = map[string][]lagSample{}
		o.streaming = map[string][]string{}
		o.streamT = map[string][]time.Duration{}
	}
	now := m.s.now()
	mgrHost := ""
	if m.lockOwner != "" {
		mgrHost = srcHostOf(m.lockOwner)
	}
	for _, sv := range m.s.mysql.sorted() {
		v := 0.0
		if o.healthyNow(sv, mgrHost) {
			v = 1
		}
		h := o.health[sv.Name]
		if n := len(h); n == 0 || h[n-1].lag != v {
			o.health[sv.Name] = append(h, lagSample{t: now, lag: v, ok: true})
			o.lastChange = now
		}
		if m.isCascade(sv.Name) {
			st := fmt.Sprintf("%s|%v", sv.Source, sv.Up && sv.HasChannel && sv.IORun && sv.SQLRun && !sv.IOConnecting)
			sh := o.streaming[sv.Name]
			if n := len(sh); n == 0 || sh[n-1] != st {
				o.streaming[sv.Name] = append(sh, st)
				o.streamT[sv.Name] = append(o.streamT[sv.Name], now)
				o.lastChange = now
			}
		}
	}
	if n := len(o.masters); n == 0 || o.masters[n-1] != m.master {
		o.masters = append(o.masters, m.master)
		o.masterHist = append(o.masterHist, lagSample{t: now})
		o.lastChange = now
	}
}

// class of a server's health over [a,b]: 1 healthy throughout, 0 unhealthy throughout, -1 mixed
func (o *orC16) healthClass(host string, a, b time.Duration, it *iterRec) int {
	if it != nil {
		for _, e := range it.sql {
			if e.Dst == host && e.Src == it.inc && !e.toldOK() {
				return -1
			}
		}
	}
	xs := samplesIn(o.health[host], a, b)
	if len(xs) == 0 {
		return -1
	}
	c := int(xs[0].lag)
	for _, x := range xs {
		if int(x.lag) != c {
			return -1
		}
	}
	return c
}

func (o *orC16) streamingIn(host string, a, b time.Duration) []string {
	var res []string
	ts, ss := o.streamT[host], o.streaming[host]
	cur := -1
	for i := range ts {
		if ts[i] <= a {
			cur = i
		}
	}
	if cur >= 0 {
		res = append(res, ss[cur])
	}
	for i := range ts {
		if ts[i] > a && ts[i] <= b {
			res = append(res, ss[i])
		}
	}
	return res
}

func (o *orC16) mastersIn(a, b time.Duration) []string {
	var res []string
	cur := -1
	for i := range o.masterHist {
		if o.masterHist[i].t <= a {
			cur = i
		}
	}
	if cur >= 0 {
		res = append(res, o.masters[cur])
	}
	for i := range o.masterHist {
		if o.masterHist[i].t > a && o.masterHist[i].t <= b {
			res = append(res, o.masters[i])
		}
	}
	return res
}

func (o *orC16) streamFromOf(host string) string {
	raw, ok := o.m.s.zk.get("/test/cascade_nodes/" + host)
	if !ok {
		return ""
	}
	var c struct {
		StreamFrom string `json:"stream_from"`
	}
	json.Unmarshal([]byte(raw), &c)
	return c.StreamFrom
}

// resolve: the set of sources the property admits for cascade replica C over the window [a,b]
func (o *orC16) resolve(C string, a, b time.Duration, it *iterRec) map[string]bool {
	m := o.m
	adm := map[string]bool{}
	addMasters := func() {
		for _, x := range o.mastersIn(a, b) {
			if x != "" {
				adm[x] = true
			}
		}
	}
	visited := map[string]bool{C: true}
	cur := C
	first := true
	for steps := 0; steps < 64; steps++ {
		sf := o.streamFromOf(cur)
		if sf == "" || visited[sf] {
			addMasters()
			return adm
		}
		if !m.isHA(sf) && !m.isCascade(sf) {
			visited[sf] = true
			cur = sf
			continue
		}
		if first {
			// what the replica streamed from before the manager itself touched it in this pass
			bs := b
			if it != nil {
				for _, e := range it.sql {
					if e.Dst == C && e.Src == it.inc && e.Mutating && e.Applied && e.T-1 < bs {
						bs = e.T - 1
					}
				}
			}
			all, some := true, false
			for _, st := range o.streamingIn(C, a, bs) {
				if st == sf+"|true" {
					some = true
				} else {
					all = false
				}
			}
			if some {
				adm[sf] = true
				if all {
					return adm
				}
			}
			first = false
		}
		switch o.healthClass(sf, a, b, it) {
		case 1:
			adm[sf] = true
			return adm
		case -1:
			adm[sf] = true
		}
		visited[sf] = true
		cur = sf
	}
	addMasters()
	return adm
}

func keys(m map[string]bool) []string {
	var r []string
	for k := range m {
		r = append(r, k)
	}
	sort.Strings(r)
	return r
}

func (o *orC16) onSQL(e *SQLEvent) {
	m := o.m
	s := m.s
	if m.primary["C16"] && m.isDaemon(e.Src) && !m.isCascade(e.Dst) && !e.toldOK() && !e.Pending {
		o.haFailed++
	}
	if !m.primary["C16"] || !e.Applied || !m.isDaemon(e.Src) {
		return
	}
	if !m.isCascade(e.Dst) {
		return
	}
	C := e.Dst
	if e.Query == "SET GLOBAL read_only = 0" && e.Effective {
		m.violate("C16", "promoted", "cascade-replica-made-writable", fmt.Sprintf("%s made cascade replica %s writable", e.Src, C))
	}
	if e.Kind != "change_master" || e.Err != "" {
		return
	}
	mm := changeHostRe.FindStringSubmatch(e.Query)
	if mm == nil {
		return
	}
	S := mm[1]
	m.probe("c16_cascade_source_changed")
	if S == C {
		m.violate("C16", "self", "cascade-replica-pointed-at-itself", fmt.Sprintf("%s pointed cascade replica %s at itself", e.Src, C))
		return
	}
	it := e.It
	if it == nil {
		return
	}
	for _, r := range it.reads {
		if (r.path == "switch" || r.path == "maintenance") && r.op == "get" && r.err == 0 {
			return // a switchover re-points replicas by its own rules
		}
	}
	bm := srcInSigRe.FindStringSubmatch(e.Before)
	hadChannel := bm != nil && bm[1] == "true"
	prev := ""
	if bm != nil {
		prev = bm[2]
	}
	if !hadChannel {
		m.probe("c16_channel_less_cascade_repointed")
		return // a server without a channel is handled as a stale master, not as a cascade replica
	}
	adm := o.resolve(C, it.startT, e.T, it)
	if !adm[S] {
		m.violate("C16", "wrong_source", "source-differs-from-reference-resolution", fmt.Sprintf("%s pointed cascade replica %s at %s (was %s); the configured chain and ancestor health during the pass admit only %v", e.Src, C, S, prev, keys(adm)))
	} else {
		m.probe("c16_resolution_checked")
		if S != o.streamFromOf(C) {
			m.probe("c16_moved_to_fallback")
		} else {
			m.probe("c16_moved_to_configured")
		}
	}
	if prev != S {
		csv, ssv := s.mysql.servers[C], s.mysql.servers[S]
		if csv != nil && ssv != nil {
			m.probe("c16_move_gtid_checked")
			if !csv.Executed.SubsetOf(ssv.Executed) {
				m.violate("C16", "moved_ahead", "cascade-replica-moved-to-source-lacking-its-transactions", fmt.Sprintf("%s moved cascade replica %s from %s to %s whose executed set %s does not contain the replica's %s", e.Src, C, prev, S, ssv.Executed.String(), csv.Executed.String()))
			}
		}
	}
}

func (o *orC16) onZK(e *ZKEvent) {
	m := o.m
	if !m.primary["C16"] || e.Err != 0 {
		return
	}
	switch {
	case e.Path == "/test/active_nodes" && (e.Op == "set" || e.Op == "create"):
		for _, h := range parseStrList(e.Data) {
			if m.isCascade(h) {
				// a registration that appeared while this pass was under way may not have been seen by it
				if it := m.iters[e.Inc]; it != nil && it.open && (&orC04{baseOracle: o.baseOracle}).cascadeSince(h) >= it.startT {
					m.probe("c16_member_became_cascade_during_pass")
					continue
				}
				m.violate("C16", "listed_active", "cascade-replica-in-active-list", fmt.Sprintf("%s published active list %s containing cascade replica %s", e.Inc, e.Data, h))
			}
		}
		m.probe("c16_active_list_checked")
	case e.Path == "/test/master" && (e.Op == "set" || e.Op == "create"):
		h := strings.Trim(e.Data, `"`)
		if m.isCascade(h) {
			m.violate("C16", "promoted", "cascade-replica-recorded-as-master", fmt.Sprintf("%s recorded cascade replica %s as master", e.Inc, h))
		}
	case e.Path == "/test/switch" && e.Op == "create" && !m.isDaemon(e.Inc):
		o.swAt, o.haFailed = m.s.now(), 0
	case e.Path == "/test/last_switch" && (e.Op == "set" || e.Op == "create") && m.isDaemon(e.Inc):
		nowMs := int64(m.s.now() / time.Millisecond)
		for _, f := range m.s.spec.StmtFail {
			if m.isCascade(f.Host) && f.FromMs <= nowMs && nowMs < f.ToMs && strings.HasPrefix("SELECT 1 AS Ok", f.Prefix) {
				m.probe("c16_master_changed_while_cascade_refuses_logins")
				break
			}
		}
	case e.Path == "/test/last_rejected_switch" && (e.Op == "set" || e.Op == "create") && m.isDaemon(e.Inc):
		// the HA group decides about its master alone: with every HA member healthy and reachable
		// from the request to the rejection, nothing a cascade replica does may make it fail
		sw := parseSwitch(e.Data)
		if sw == nil || sw.Cause == "auto" || o.swAt == 0 || o.haFailed > 0 || m.s.net.zkDown {
			return
		}
		now := m.s.now()
		from := o.swAt - ms(m.s.spec.Cfg.TickMs)
		it := m.iters[e.Inc]
		if it != nil && it.open && it.startT < from {
			from = it.startT // the rejecting pass may have looked at the members before the request appeared
		}
		for _, h := range m.s.zk.children("/test/ha_nodes") {
			if o.healthClass(h, from, now, it) != 1 {
				return
			}
			if sv := m.s.mysql.servers[h]; sv == nil || sv.lastWorldChange >= from {
				return
			}
		}
		m.violate("C16", "vetoed", "switchover-rejected-although-every-ha-member-healthy", fmt.Sprintf("%s rejected %s although every HA member was healthy, replicating and answered every call since the request was filed at %v", e.Inc, e.Data, o.swAt))
	case e.Path == "/test/switch" && e.Op == "create" && m.isDaemon(e.Inc):
		sw := parseSwitch(e.Data)
		it := m.iters[e.Inc]
		if sw == nil || sw.Cause != "auto" || it == nil || !it.open {
			return
		}
		m.probe("c16_auto_failover_with_cascade_checked")
		cfg := &m.s.spec.Cfg
		master := sw.From
		seen := func(h string) string {
			st := ""
			for _, x := range it.sql {
				if x.Dst == h && x.Aux != "" && x.Seq <= e.Seq && x.toldOK() {
					st = x.Aux
				}
			}
			for _, x := range it.sql {
				if x.Dst == h && x.Src == it.inc && x.Seq <= e.Seq && !x.Mutating && !x.toldOK() {
					st = "" // one failing status query voids the whole probe of that host
				}
			}
			return st
		}
		// every other HA node still replicating = coordination problem, not a master failure;
		// cascade replicas have no say in that
		nHA, nRun, unknown := 0, 0, 0
		for _, h := range m.s.zk.children("/test/ha_nodes") {
			nHA++
			if h == master {
				continue
			}
			switch seen(h) {
			case "running":
				nRun++
			case "":
				unknown++
			}
		}
		_, waiveFS, crashRec, _ := (&orC05{baseOracle: o.baseOracle}).masterHealthAsRead(it, master, e.Seq)
		if !(waiveFS || (crashRec && cfg.ResetupCrashedHosts)) && nRun > 0 && nRun == nHA-1 && unknown == 0 {
			m.violate("C16", "quorum", "failover-filed-although-every-ha-replica-streams", fmt.Sprintf("%s filed automatic failover from %s although all %d other HA nodes were seen replicating (cascade replicas must not enter that count)", e.Inc, master, nRun))
		}
		var A []string
		if raw, ok := firstRead(it, "active_nodes"); ok {
			A = parseStrList(raw)
		}
		alive := 0
		for _, h := range A {
			if h == master || m.isCascade(h) {
				continue
			}
			if st := seen(h); st != "" && st != "master" {
				alive++
			}
		}
		if cfg.SemiSync && alive < quorumFor(len(A), cfg) {
			m.violate("C16", "quorum", "failover-quorum-reached-only-with-cascade-replicas", fmt.Sprintf("%s filed automatic failover with %d alive HA replicas in active list %v (quorum %d)", e.Inc, alive, A, quorumFor(len(A), cfg)))
		}
	}
}

// final: after a quiet period every healthy cascade replica streams from what the resolution yields
func (o *orC16) atEnd() {
	m := o.m
	s := m.s
	if !m.primary["C16"] || o.health == nil {
		return
	}
	now := s.now()
	settle := 12*ms(s.spec.Cfg.TickMs) + 10*time.Second
	lastWorld := time.Duration(0)
	for _, sv := range s.mysql.sorted() {
		if sv.lastWorldChange > lastWorld {
			lastWorld = sv.lastWorldChange
		}
	}
	if m.lockOwner == "" || now-m.lockSince < settle || now-lastWorld < settle {
		return
	}
	if _, ok := s.zk.get("/test/switch"); ok {
		return
	}
	if _, ok := s.zk.get("/test/maintenance"); ok {
		return
	}
	for _, sv := range s.mysql.sorted() {
		C := sv.Name
		if !m.isCascade(C) || !sv.Up || !sv.HasChannel {
			continue
		}
		if s.net.blocked(srcHostOf(m.lockOwner), C) {
			continue
		}
		if _, rec := s.zk.get("/test/recovery/" + C); rec {
			continue
		}
		if permanentErrnos[sv.LastIOErrno] || permanentErrnos[sv.LastSQLErrno] {
			continue
		}
		adm := o.resolve(C, now-settle, now, nil)
		m.probe("c16_final_source_checked")
		if sv.Source == C {
			m.violate("C16", "self", "cascade-replica-streams-from-itself", C)
		}
		if len(adm) == 1 && !adm[sv.Source] {
			// classes stable for the whole settle period, yet the replica was left elsewhere; only a
			// source that has not caught up with the replica may delay the move
			want := keys(adm)[0]
			wsv := s.mysql.servers[want]
			if wsv != nil && sv.Executed.SubsetOf(wsv.Executed) {
				m.violate("C16", "not_converged", "cascade-replica-left-on-wrong-source", fmt.Sprintf("%v after the last change %s still streams from %s; the configured chain and ancestor health yield %s", settle, C, sv.Source, want))
			}
		}
	}
}
