package verifsim

import (
	"fmt"
	"strings"
	"time"
)

// C11 - recovery protocol keeps diverged ex-masters out until proven clean.
type orC11 struct {
	baseOracle
	dirtySince map[string]time.Duration
	prevMaster string
	curMaster  string
}

func (o *orC11) name() string { return "C11" }

func (o *orC11) replClean(x, mst *Server) (bool, string) {
	switch {
	case !x.ReadOnly:
		return false, "not read-only"
	case !x.HasChannel:
		return false, "not a replica"
	case x.LastSQLErrno != 0 || (x.LastIOErrno != 0 && x.LastIOErrno != 2003):
		return false, fmt.Sprintf("replication error io=%d sql=%d", x.LastIOErrno, x.LastSQLErrno)
	case !x.Executed.SubsetOf(mst.Holds()):
		return false, fmt.Sprintf("holds %v which master %s lacks", x.Executed.Minus(mst.Holds()), mst.Name)
	}
	return true, ""
}

func (o *orC11) onZK(e *ZKEvent) {
	m := o.m
	s := m.s
	if e.Err != 0 {
		return
	}
	rel := strings.TrimPrefix(e.Path, "/test/")
	switch {
	case rel == "master" && (e.Op == "set" || e.Op == "create"):
		if v := strings.Trim(e.Data, `"`); v != o.curMaster {
			o.prevMaster, o.curMaster = o.curMaster, v
		}
	case rel == "active_nodes" && (e.Op == "set" || e.Op == "create") && m.isDaemon(e.Inc):
		// (2) marked hosts are never published (unless the recorded master itself)
		for _, h := range parseStrList(e.Data) {
			if m.recovery[h] && h != m.master {
				// a mark that appeared while this pass was under way may not have been seen by it
				if it := m.iters[e.Inc]; it != nil && it.open && m.recoverySince[h] >= it.startT {
					continue
				}
				// the switchover publishes the list before it records the new master: tolerate the new master-to-be
				if it := m.iters[e.Inc]; it != nil && it.open && m.switchRaw != "" {
					sv := s.mysql.servers[h]
					if sv != nil && !sv.HasChannel {
						continue
					}
				}
				m.violate("C11", "marked_host_published", "host-marked-for-recovery-in-active-list", fmt.Sprintf("%s published active list %s while recovery/%s exists", e.Inc, e.Data, h))
			}
		}
	case strings.HasPrefix(rel, "recovery/") && e.Op == "delete":
		x := strings.TrimPrefix(rel, "recovery/")
		if e.Inc == "external" {
			return
		}
		m.probe("c11_recovery_mark_cleared")
		// (3) only the host's own mysync clears the mark, and only when clean
		if srcHostOf(e.Inc) != x {
			m.violate("C11", "cleared_by_other", "recovery-mark-cleared-by-another-host", fmt.Sprintf("%s cleared recovery/%s", e.Inc, x))
			return
		}
		xs, msv := s.mysql.servers[x], s.mysql.servers[m.master]
		if xs == nil || msv == nil || !xs.Up {
			return
		}
		if ok, why := o.replClean(xs, msv); !ok {
			// observed-in-window: what the host's own check saw in its last statements
			sawRO, sawClean := false, false
			evs := m.recent[e.Inc]
			for i := len(evs) - 1; i >= 0 && i >= len(evs)-12; i-- {
				x := evs[i]
				if x.Dst != x.Src[:strings.Index(x.Src+"#", "#")] || !x.toldOK() || m.s.now()-x.T > ms(m.s.spec.Cfg.RecoveryMs)/2+ms(m.s.spec.Cfg.DBTimeoutMs) {
					continue
				}
				if x.Aux == "ro=true" {
					sawRO = true
				}
				if contains(x.CleanWrt, m.master) {
					sawClean = true
				}
			}
			if sawRO && sawClean {
				m.probe("c11_clear_clean_in_window")
				return
			}
			m.violate("C11", "cleared_while_dirty", "recovery-mark-cleared-while-not-clean", fmt.Sprintf("%s cleared recovery/%s although the node is %s", e.Inc, x, why))
		}
	case rel == "last_switch" && (e.Op == "set" || e.Op == "create") && m.isDaemon(e.Inc):
		// (1) switch away from M finished ok: M must be marked unless confirmed clean
		sw := parseSwitch(e.Data)
		if sw == nil || sw.Result == nil || !sw.Result.Ok {
			return
		}
		newM := m.master
		old := o.prevMaster
		if old == "" || old == newM {
			return
		}
		m.probe("c11_switch_away_finished")
		osv, nsv := s.mysql.servers[old], s.mysql.servers[newM]
		if osv == nil || nsv == nil {
			return
		}
		// a clean replica: replicating (from the new master or, after an earlier attempt of the same
		// request, still from another member), no applier error, nothing the new master lacks
		confirmed := osv.Up && osv.HasChannel && (m.isHA(osv.Source) || m.isCascade(osv.Source)) && osv.Source != old && osv.LastSQLErrno == 0 && (osv.LastIOErrno == 0 || osv.LastIOErrno == 2003) && osv.Executed.SubsetOf(nsv.Holds())
		if !confirmed {
			m.probe("c11_old_master_not_confirmed_clean")
			// observed-in-window rule: the scenario changed the old master during this very
			// iteration, after the manager may have looked at it
			if it := m.iters[e.Inc]; it != nil {
				if osv.lastWorldChange >= it.startT {
					m.probe("c11_old_master_changed_in_window")
					return
				}
				// ... or the manager saw it clean at some instant of this iteration: a replica of the
				// new master, no error, executed set contained in the new master's
				seenSrc := false
				for _, x := range it.sql {
					if x.Dst != old || !x.Applied {
						continue
					}
					if mm := changeHostRe.FindStringSubmatch(x.Query); mm != nil && mm[1] == newM {
						seenSrc = true
					}
					if seenSrc && x.toldOK() && contains(x.CleanWrt, newM) && osv.Frozen(it) {
						m.probe("c11_old_master_clean_in_window")
						return
					}
				}
			}
			if !m.recovery[old] {
				m.violate("C11", "old_master_unmarked", "unconfirmed-old-master-not-marked-for-recovery", fmt.Sprintf("switch %s -> %s finished ok; old master up=%v replica=%v src=%s sqlerr=%d ahead=%v but recovery/%s is absent", old, newM, osv.Up, osv.HasChannel, osv.Source, osv.LastSQLErrno, osv.Executed.Minus(nsv.Holds()), old))
			}
		}
	}
}

// (4) a marked node that holds transactions the master lacks, or whose replication is in
// error, keeps its mark and gets its resetup file within two recovery periods
func (o *orC11) onIterLeave(it *iterRec) {
	m := o.m
	s := m.s
	d := m.daemonOf(it.inc)
	if d == nil || !d.alive {
		return
	}
	x := d.host
	if o.dirtySince == nil {
		o.dirtySince = map[string]time.Duration{}
	}
	xs, mst := s.mysql.servers[x], s.mysql.servers[m.master]
	dirty := false
	if m.recovery[x] && xs != nil && mst != nil && xs.Up && mst.Up && xs != mst && xs.HasChannel && len(xs.waiters) == 0 && !s.net.blocked(x, "zk") && !s.net.zkDown && !s.net.blocked(x, m.master) {
		if !xs.Executed.SubsetOf(mst.Holds()) || xs.LastSQLErrno != 0 || permanentErrnos[xs.LastIOErrno] {
			dirty = true
		}
	}
	if !dirty {
		delete(o.dirtySince, x)
		return
	}
	if _, ok := o.dirtySince[x]; !ok {
		o.dirtySince[x] = s.now()
	}
	if s.fileExists(x, "resetup") {
		m.probe("c11_resetup_file_written")
		delete(o.dirtySince, x)
		return
	}
	limit := 2*ms(s.spec.Cfg.RecoveryMs) + ms(s.spec.Cfg.DBTimeoutMs)*3 + 3*time.Second
	if s.now()-o.dirtySince[x] > limit && m.faultsTotal == 0 || s.now()-o.dirtySince[x] > 3*limit {
		m.violate("C11", "no_resetup_file", "dirty-marked-node-without-resetup-file", fmt.Sprintf("%s marked for recovery, diverged/broken for %v, but its resetup file was not written", x, s.now()-o.dirtySince[x]))
	}
}

// Frozen: this iteration's read-only statement at the server was reported successful
func (sv *Server) Frozen(it *iterRec) bool {
	for _, e := range it.sql {
		if e.Dst == sv.Name && e.toldOK() && (e.Query == "SET GLOBAL super_read_only = 1" || e.Query == "SET GLOBAL read_only = 1, super_read_only = 0") {
			return true
		}
	}
	return false
}
