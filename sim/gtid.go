package verifsim

import (
	"fmt"
	"sort"
	"strings"
)

// GTIDSet: per source uuid a sorted list of disjoint closed intervals [lo,hi].
type ival struct{ lo, hi int64 }
type GTIDSet map[string][]ival

type GTID struct {
	UUID string
	N    int64
}

func (g GTID) String() string { return fmt.Sprintf("%s:%d", g.UUID, g.N) }

func (s GTIDSet) Clone() GTIDSet {
	r := GTIDSet{}
	for u, iv := range s {
		r[u] = append([]ival(nil), iv...)
	}
	return r
}

func (s GTIDSet) Has(g GTID) bool {
	for _, iv := range s[g.UUID] {
		if g.N >= iv.lo && g.N <= iv.hi {
			return true
		}
	}
	return false
}

func (s GTIDSet) Add(g GTID) {
	if s.Has(g) {
		return
	}
	iv := append(s[g.UUID], ival{g.N, g.N})
	sort.Slice(iv, func(i, j int) bool { return iv[i].lo < iv[j].lo })
	var out []ival
	for _, x := range iv {
		if n := len(out); n > 0 && out[n-1].hi+1 >= x.lo {
			if x.hi > out[n-1].hi {
				out[n-1].hi = x.hi
			}
		} else {
			out = append(out, x)
		}
	}
	s[g.UUID] = out
}

func (s GTIDSet) Remove(g GTID) {
	var out []ival
	for _, iv := range s[g.UUID] {
		if g.N < iv.lo || g.N > iv.hi {
			out = append(out, iv)
			continue
		}
		if iv.lo <= g.N-1 {
			out = append(out, ival{iv.lo, g.N - 1})
		}
		if g.N+1 <= iv.hi {
			out = append(out, ival{g.N + 1, iv.hi})
		}
	}
	if len(out) == 0 {
		delete(s, g.UUID)
	} else {
		s[g.UUID] = out
	}
}

func (s GTIDSet) AddSet(o GTIDSet) {
	for u, ivs := range o {
		for _, iv := range ivs {
			for n := iv.lo; n <= iv.hi; n++ {
				s.Add(GTID{u, n})
			}
		}
	}
}

func (s GTIDSet) Union(o GTIDSet) GTIDSet {
	r := s.Clone()
	r.AddSet(o)
	return r
}

// SubsetOf: every gtid of s is in o.
func (s GTIDSet) SubsetOf(o GTIDSet) bool {
	for u, ivs := range s {
		for _, iv := range ivs {
			ok := false
			for _, ov := range o[u] {
				if iv.lo >= ov.lo && iv.hi <= ov.hi {
					ok = true
					break
				}
			}
			if !ok {
				return false
			}
		}
	}
	return true
}

func (s GTIDSet) Equal(o GTIDSet) bool { return s.SubsetOf(o) && o.SubsetOf(s) }

func (s GTIDSet) Count() int64 {
	var n int64
	for _, ivs := range s {
		for _, iv := range ivs {
			n += iv.hi - iv.lo + 1
		}
	}
	return n
}

// Minus returns the gtids of s not in o (small sets only).
func (s GTIDSet) Minus(o GTIDSet) []GTID {
	var r []GTID
	us := make([]string, 0, len(s))
	for u := range s {
		us = append(us, u)
	}
	sort.Strings(us)
	for _, u := range us {
		for _, iv := range s[u] {
			for n := iv.lo; n <= iv.hi; n++ {
				if !o.Has(GTID{u, n}) {
					r = append(r, GTID{u, n})
				}
			}
		}
	}
	return r
}

func (s GTIDSet) String() string {
	us := make([]string, 0, len(s))
	for u := range s {
		us = append(us, u)
	}
	sort.Strings(us)
	var parts []string
	for _, u := range us {
		if len(s[u]) == 0 {
			continue
		}
		p := u
		for _, iv := range s[u] {
			if iv.lo == iv.hi {
				p += fmt.Sprintf(":%d", iv.lo)
			} else {
				p += fmt.Sprintf(":%d-%d", iv.lo, iv.hi)
			}
		}
		parts = append(parts, p)
	}
	return strings.Join(parts, ",\n")
}

func parseGTIDSet(str string) GTIDSet {
	r := GTIDSet{}
	str = strings.ReplaceAll(str, "\n", "")
	for _, part := range strings.Split(str, ",") {
		part = strings.TrimSpace(part)
		if part == "" {
			continue
		}
		f := strings.Split(part, ":")
		u := f[0]
		for _, iv := range f[1:] {
			var lo, hi int64
			if strings.Contains(iv, "-") {
				fmt.Sscanf(iv, "%d-%d", &lo, &hi)
			} else {
				fmt.Sscanf(iv, "%d", &lo)
				hi = lo
			}
			for n := lo; n <= hi; n++ {
				r.Add(GTID{u, n})
			}
		}
	}
	return r
}
