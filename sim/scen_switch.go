package verifsim

import (
	"fmt"
	"time"
)

func simTimeRFC(at int64) string {
	t := time.Date(2000, 1, 1, 0, 0, 0, 0, time.UTC).Add(ms(at))
	return t.Format(time.RFC3339Nano)
}

var switchKinds = []string{"to", "from", "from_many", "failover_flag", "worker", "auto_kill_mysql", "auto_kill_host", "auto_isolate", "auto_fs_ro", "auto_unfreezable_replica"}

// addSwitchRequest appends the timeline events of one switch request of the given kind.
func addSwitchRequest(sp *Spec, r *rng, kind string, at int64) string {
	ha := sp.haNames()
	master := ha[0]
	cliHost := ha[r.intn(len(ha))]
	switch kind {
	case "to":
		to := ha[1+r.intn(len(ha)-1)]
		sp.Timeline = append(sp.Timeline, TLEvent{AtMs: at, Kind: "cli_switch_to", Host: cliHost, Arg: to})
		return "to=" + to
	case "from":
		sp.Timeline = append(sp.Timeline, TLEvent{AtMs: at, Kind: "cli_switch_from", Host: cliHost, Arg: master})
	case "from_many":
		// prefix matching several hosts incl. the master: "h1" matches h1 (and h10..), "h" matches all - use
		// a prefix that matches master and one more when the cluster is big enough
		sp.Timeline = append(sp.Timeline, TLEvent{AtMs: at, Kind: "cli_switch_from", Host: cliHost, Arg: master})
	case "failover_flag":
		if r.chance(0.5) {
			sp.Timeline = append(sp.Timeline, TLEvent{AtMs: at, Kind: "cli_switch_from", Host: cliHost, Arg: master, N: 1})
		} else {
			sp.Timeline = append(sp.Timeline, TLEvent{AtMs: at, Kind: "cli_switch_to", Host: cliHost, Arg: ha[1+r.intn(len(ha)-1)], N: 1})
		}
	case "worker":
		to, from := "", master
		if r.chance(0.5) {
			to, from = ha[1+r.intn(len(ha)-1)], ""
		}
		js := fmt.Sprintf(`{"from":%q,"to":%q,"cause":"worker","initiated_by":"worker","initiated_at":%q,"master_transition":"","started_by":"","started_at":"0001-01-01T00:00:00Z","result":null}`, from, to, simTimeRFC(at))
		sp.Timeline = append(sp.Timeline, TLEvent{AtMs: at, Kind: "zk_set", Arg: "/test/switch", Arg2: js})
	case "auto_kill_mysql":
		sp.Timeline = append(sp.Timeline, TLEvent{AtMs: at, Kind: "kill_mysql", Host: master, Fault: true, DurMs: int64(r.pickInt(0, 0, 20000, 45000))})
	case "auto_kill_host":
		sp.Timeline = append(sp.Timeline, TLEvent{AtMs: at, Kind: "kill_host", Host: master, Fault: true, DurMs: int64(r.pickInt(0, 0, 20000, 45000))})
	case "auto_isolate":
		sp.Timeline = append(sp.Timeline, TLEvent{AtMs: at, Kind: "isolate", Host: master, Arg: r.pick("blackhole", "reject"), Fault: true, DurMs: int64(r.pickInt(0, 25000, 50000))})
	case "auto_fs_ro":
		sp.Timeline = append(sp.Timeline, TLEvent{AtMs: at, Kind: "fs_ro", Host: master, N: 1, Fault: true})
	case "auto_unfreezable_replica":
		// the master dies; one replica - the one that is ahead of the others - stays alive but cannot
		// be frozen (its read-only / stop-IO statements fail): the quorum must be counted over the
		// whole published list, old master included
		sp.Timeline = append(sp.Timeline, TLEvent{AtMs: at, Kind: "kill_mysql", Host: master, Fault: true, DurMs: int64(r.pickInt(0, 30000, 50000))})
		R := ha[1+r.intn(len(ha)-1)]
		pre := []string{"SET GLOBAL super_read_only", "STOP SLAVE IO_THREAD", "STOP REPLICA IO_THREAD", "SET GLOBAL"}[r.intn(4)]
		sp.StmtFail = append(sp.StmtFail, StmtFail{Host: R, Prefix: pre, Errno: 1105, FromMs: at - 500, ToMs: at + int64(r.pickInt(20000, 40000))})
		if pre == "STOP SLAVE IO_THREAD" {
			sp.StmtFail = append(sp.StmtFail, StmtFail{Host: R, Prefix: "STOP REPLICA IO_THREAD", Errno: 1105, FromMs: at - 500, ToMs: at + 40000})
		}
		for _, h := range ha[1:] {
			if h != R && r.chance(0.7) {
				sp.Timeline = append(sp.Timeline, TLEvent{AtMs: at - int64(r.pickInt(300, 900, 2000)), Kind: "fetch_bytes", Host: h, N: 1})
				sp.Timeline = append(sp.Timeline, TLEvent{AtMs: at + 200, Kind: "fetch_bytes", Host: h, N: 0})
			}
		}
		return "unfreezable=" + R
	}
	return ""
}

// family switch (C01, C03 part 2): GTID history, one switch request of each kind, faults during the procedure.
func genSwitch(r *rng, index int) *Spec {
	sp := baseSpec(r, shapeOpt{minHA: 2, maxHA: 4, cascade: 0.2})
	c := &sp.Cfg
	c.FailoverCooldownMs = 0
	c.FailoverDelayMs = int64(r.pickInt(0, 2000, 5000))
	ha := sp.haNames()
	// history: apply lag -> received-but-unapplied tails
	for i := range sp.Hosts {
		if sp.Hosts[i].Role == "ha" && i > 0 && r.chance(0.4) {
			sp.Hosts[i].Init = &InitState{ApplyDelayMs: int64(r.pickInt(50, 200, 600))}
		}
		if sp.Hosts[i].Role == "ha" && r.chance(0.3) {
			sp.Hosts[i].Priority = r.pickInt(0, 5, 10)
		}
	}
	sp.World.ClientWriteMs = int64(r.pickInt(150, 300, 700))
	if (index/10)%4 == 1 {
		// async mode: during an *automatic* failover a candidate within the allowed lag need not
		// catch up; every other kind of request still waits
		c.Async = true
		c.SemiSync = false // the two modes exclude each other
		c.AsyncAllowedLagMs = int64(r.pickInt(30000, 60000))
		c.ReplMon = true
		for i := range sp.Hosts {
			if sp.Hosts[i].Role == "ha" && i > 0 && r.chance(0.7) {
				sp.Hosts[i].Init = &InitState{ApplyDelayMs: int64(r.pickInt(1500, 4000, 9000))}
			}
		}
	}
	T0 := int64(20000 + r.intn(10000))
	// optional earlier master change so that several source uuids exist
	if len(ha) >= 3 && r.chance(0.25) {
		sp.Timeline = append(sp.Timeline, TLEvent{AtMs: 6000, Kind: "cli_switch_from", Host: ha[1], Arg: ha[0]})
		T0 += 15000
	}
	// optional true split brain shortly before the request
	if len(ha) >= 3 && r.chance(0.2) {
		off := int64(r.intn(int(c.TickMs)))
		sp.Timeline = append(sp.Timeline, TLEvent{AtMs: T0 - off, Kind: "errant_txn", Host: ha[1+r.intn(len(ha)-1)], N: 1})
		if r.chance(0.5) {
			sp.Timeline = append(sp.Timeline, TLEvent{AtMs: T0 - off, Kind: "errant_txn", Host: ha[len(ha)-1], N: 1})
		}
		if r.chance(0.5) {
			sp.Timeline = append(sp.Timeline, TLEvent{AtMs: T0 - off - 500, Kind: "fetch_bytes", Host: ha[1], N: 1})
		}
	}
	kind := switchKinds[index%len(switchKinds)]
	v := ""
	if c.Async && kind == "failover_flag" && r.chance(0.7) {
		// operator-forced failover to a host whose applier is behind (within the allowed lag): it
		// is not an automatic failover, the candidate has to catch up
		to := ha[1+r.intn(len(ha)-1)]
		sp.hostSpecByName(to).Init = &InitState{ApplyDelayMs: int64(r.pickInt(3000, 6000, 9000))}
		sp.World.ClientWriteMs = int64(r.pickInt(150, 300))
		c.SlaveCatchUpTimeoutMs = 30000
		sp.Timeline = append(sp.Timeline, TLEvent{AtMs: T0, Kind: "cli_switch_to", Host: ha[r.intn(len(ha))], Arg: to, N: 1})
		v = "forced_to_lagging=" + to
	} else {
		v = addSwitchRequest(sp, r, kind, T0)
	}
	// faults while the procedure runs
	sp.Rates = RateSpec{FromMs: T0 - 1000, ToMs: T0 + 40000,
		SQLErr: []float64{0, 0.005, 0.015, 0.03}[r.intn(4)], SQLLost: []float64{0, 0.003, 0.01}[r.intn(3)],
		SQLHang: []float64{0, 0.003, 0.008}[r.intn(3)], SQLSlow: []float64{0, 0.02, 0.05}[r.intn(3)],
		ZKReset: []float64{0, 0.002, 0.006}[r.intn(3)], ZKResetAfter: []float64{0, 0.002}[r.intn(2)], ZKSlow: []float64{0, 0.01}[r.intn(2)]}
	if r.chance(0.5) {
		// faults only on mutating statements: approvals pass, faults land inside the procedure
		sp.Rates.OnlyMutating = true
		sp.Rates.SQLErr *= 4
		sp.Rates.SQLLost *= 4
		sp.Rates.SQLHang *= 3
	}
	if r.chance(0.4) {
		victim := sp.Hosts[r.intn(len(sp.Hosts))].Name
		k := r.pick("kill_mysql", "kill_host", "kill_daemon", "isolate")
		ev := TLEvent{AtMs: T0 + int64(r.intn(6000)), Kind: k, Host: victim, Fault: true, DurMs: int64(r.pickInt(0, 5000, 20000))}
		if k == "isolate" {
			ev.Arg = r.pick("blackhole", "reject")
		}
		sp.Timeline = append(sp.Timeline, ev)
	}
	sp.World.AutoResetupMs = 10000
	sp.Variant = fmt.Sprintf("%s %s nHA=%d semi=%v", kind, v, len(ha), c.SemiSync)
	sp.DurationMs = T0 + 70000
	sp.HealAtMs = T0 + 40000
	sp.Primary = []string{"C01", "C03"}
	return sp
}
