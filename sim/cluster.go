package verifsim

import (
	"context"
	"fmt"
	"net"
	"os"
	"path/filepath"
	"runtime/pprof"
	"sort"
	"strings"
	"sync"
	"time"

	"github.com/go-zookeeper/zk"
	"github.com/yandex/mysync/internal/app"
	"github.com/yandex/mysync/internal/config"
	"github.com/yandex/mysync/internal/dcs"
)

type Daemon struct {
	inc       string
	host      string
	kind      string // daemon | cli
	lockfile  string
	cfgPath   string
	ctx       context.Context
	cancel    context.CancelFunc
	alive     bool
	exited    bool
	exitCode  int
	app       *app.App
	startedAt time.Duration
	diedAt    time.Duration

	// iteration tracking (filled from hook queue)
	state     string
	inIter    bool
	iterStart time.Duration
	iterSeq   uint64
	iterN     int
}

type hookEv struct {
	lockfile string
	phase    string
	state    string
	next     string
}

var hookMu sync.Mutex
var hookQ []hookEv

func installHooks(s *Sim) {
	app.VerifBaseContext = func(cfg *config.Config) context.Context {
		hookMu.Lock()
		defer hookMu.Unlock()
		return ctxByLock[cfg.Lockfile]
	}
	app.VerifStateEnter = func(cfg *config.Config, state string) {
		hookMu.Lock()
		hookQ = append(hookQ, hookEv{cfg.Lockfile, "enter", state, ""})
		hookMu.Unlock()
	}
	app.VerifStateLeave = func(cfg *config.Config, state, next string) {
		hookMu.Lock()
		hookQ = append(hookQ, hookEv{cfg.Lockfile, "leave", state, next})
		hookMu.Unlock()
	}
	dcs.VerifZKConnect = func(cfg *dcs.ZookeeperConfig, l zk.Logger) (*zk.Conn, <-chan zk.Event, error) {
		owner := incByZKHost(cfg.Hostname)
		dial := func(network, addr string, timeout time.Duration) (net.Conn, error) {
			c := s.net.newConn(owner, srcHostOf(owner))
			// a dial may fail any time before its timeout; never exactly on it (timer coincidences)
			timeout -= time.Duration(1+s.h("dialjit", owner, fmt.Sprint(c.id))%700) * time.Microsecond
			ctx, cancel := context.WithTimeout(context.Background(), timeout)
			defer cancel()
			r := s.submit(&call{kind: callZKDial, src: owner, dst: "zk", query: "<dial>", ctx: ctx, zkc: c})
			if r.err != nil {
				c.dead.Store(true)
				return nil, r.err
			}
			return c, nil
		}
		return zk.Connect(cfg.Hosts, cfg.SessionTimeout, zk.WithDialer(dial), zk.WithHostProvider(&simHostProvider{}), zk.WithLogger(l), zk.WithLogInfo(false))
	}
}

var ctxByLock = map[string]context.Context{}
var zkHostToInc = map[string]string{}

func incByZKHost(h string) string {
	hookMu.Lock()
	defer hookMu.Unlock()
	if v, ok := zkHostToInc[h]; ok {
		return v
	}
	return h
}

func (s *Sim) drainHooks() {
	s.drainRestarts()
	hookMu.Lock()
	q := hookQ
	hookQ = nil
	hookMu.Unlock()
	// hook events of different daemons that arrive in the same batch are ordered by the Go
	// scheduler: process them per daemon (each daemon's own order is kept)
	sort.SliceStable(q, func(i, j int) bool { return q[i].lockfile < q[j].lockfile })
	for _, h := range q {
		var d *Daemon
		for _, x := range s.daemons {
			if x.lockfile == h.lockfile {
				d = x
			}
		}
		if d == nil || !d.alive {
			continue
		}
		if h.phase == "enter" {
			d.inIter = true
			d.state = h.state
			d.iterStart = s.now()
			d.iterSeq = s.evSeq
			d.iterN++
			s.trace("ITER-ENTER %s %s", d.inc, h.state)
			s.mon.onIterEnter(d, h.state)
		} else {
			d.inIter = false
			s.stats.Iterations++
			s.trace("ITER-LEAVE %s %s -> %s", d.inc, h.state, h.next)
			s.mon.onIterLeave(d, h.state, h.next)
			d.state = h.next
		}
	}
}

func dur(v int64) string { return fmt.Sprintf("%dms", v) }

func (s *Sim) hostDir(host string) string {
	d := filepath.Join(s.dir, host)
	os.MkdirAll(d, 0o755)
	return d
}

func (s *Sim) writeConfig(host, inc string, n int, cli bool) (cfgPath, lockfile string) {
	c := &s.spec.Cfg
	hd := s.hostDir(host)
	lockfile = filepath.Join(hd, fmt.Sprintf("lock.%s", strings.ReplaceAll(inc, ":", "_")))
	zkHost := strings.ReplaceAll(inc, "#", "-")
	if c.SameZKIdentity && !cli {
		zkHost = host
	}
	hookMu.Lock()
	zkHostToInc[zkHost] = inc
	hookMu.Unlock()
	// distinct sub-millisecond offsets so that tickers of different daemons never coincide
	idx := 0
	for i, h := range s.spec.Hosts {
		if h.Name == host {
			idx = i
		}
	}
	off := int64(idx*7 + n*3)
	lvl := c.LogLevel
	if lvl == "" {
		lvl = "error"
	}
	if v := os.Getenv("VERIF_LOGLEVEL"); v != "" {
		lvl = v // debugging aid: mysync's own log in the kept run directory
	}
	logPath := filepath.Join(hd, fmt.Sprintf("mysync.%d.log", n))
	if !s.verbose {
		logPath = "/dev/null"
	}
	var b strings.Builder
	w := func(f string, a ...any) { fmt.Fprintf(&b, f+"\n", a...) }
	w("log: %s", logPath)
	w("loglevel: %s", lvl)
	w("log_poll_interval: 0s")
	w("hostname: %s", host)
	w("lockfile: %s", lockfile)
	w("info_file: %s/info", hd)
	w("emergefile: %s/emerge", hd)
	w("resetupfile: %s/resetup", hd)
	w("maintenancefile: %s/maintenance", hd)
	w("tick_interval: %dus", c.TickMs*1000+off*13)
	w("healthcheck_interval: %dus", c.HealthMs*1000+off*17+5)
	w("recoverycheck_interval: %dus", c.RecoveryMs*1000+off*19+11)
	w("info_file_handler_interval: %dus", 30000000+off*23)
	w("semi_sync: %v", c.SemiSync)
	if c.Async {
		w("async: true")
		w("async_allowed_lag: %s", dur(c.AsyncAllowedLagMs))
	}
	if c.ReplMon || c.Async {
		w("repl_mon: true")
	}
	w("rpl_semi_sync_master_wait_for_slave_count: %d", c.WaitSlaveCount)
	w("failover: %v", c.Failover)
	w("failover_delay: %s", dur(c.FailoverDelayMs))
	w("failover_cooldown: %s", dur(c.FailoverCooldownMs))
	w("inactivation_delay: %s", dur(c.InactivationDelayMs))
	w("master_first_adjust_ss_order: %v", c.MasterFirstSSOrder)
	w("force_switchover: %v", c.ForceSwitchover)
	w("manager_switchover: %v", c.ManagerSwitchover)
	w("resetup_crashed_hosts: %v", c.ResetupCrashedHosts)
	w("db_timeout: %dus", c.DBTimeoutMs*1000+2477+off)
	w("db_lost_check_timeout: %dus", c.DBLostCheckTimeoutMs*1000+3571+off)
	w("db_set_ro_timeout: %dus", c.DBSetRoTimeoutMs*1000+4813+off)
	w("db_set_ro_force_timeout: %dus", c.DBSetRoForceTimeoutMs*1000+5651+off)
	w("db_stop_slave_sql_thread_timeout: %dus", c.DBTimeoutMs*2000+6373+off)
	w("switchover_timeout: %s", dur(c.SwitchoverTimeoutMs))
	w("switchover_max_attempts: %d", c.SwitchoverMaxAttempts)
	w("slave_catch_up_timeout: %dus", c.SlaveCatchUpTimeoutMs*1000+9341+off)
	w("wait_start_replication_timeout: %dus", c.WaitReplStartMs*1000+8713+off)
	w("disable_set_readonly_on_lost: %v", c.DisableSetROOnLost)
	w("disable_semi_sync_replication_on_maintenance: %v", c.DisableSSOnMaint)
	w("replication_repair_aggressive_mode: %v", c.AggressiveRepair)
	w("replication_repair_cooldown: %s", dur(c.RepairCooldownMs))
	w("replication_repair_max_attempts: %d", c.RepairMaxAttempts)
	w("semi_sync_enable_lag: %d", c.SemiSyncEnableLag)
	if c.CriticalDisk > 0 {
		w("critical_disk_usage: %v", c.CriticalDisk)
		w("not_critical_disk_usage: %v", c.NotCriticalDisk)
	}
	w("keep_super_writable_on_critical_disk_usage: %v", c.KeepSuperWritable)
	if c.OfflineEnableLagMs > 0 {
		w("offline_mode_enable_lag: %s", dur(c.OfflineEnableLagMs))
		w("offline_mode_disable_lag: %s", dur(c.OfflineDisableLagMs))
		w("offline_mode_max_offline_pct: %d", c.OfflineMaxPct)
		w("offline_mode_az_separator: %q", c.OfflineAZSep)
		w("offline_mode_enable_interval: %s", dur(c.OfflineEnableIntervalMs))
	}
	if c.StreamFromReasonableLagMs > 0 {
		w("stream_from_reasonable_lag: %s", dur(c.StreamFromReasonableLagMs))
	}
	if c.PriorityChoiceMaxLagMs > 0 {
		w("priority_choice_max_lag: %s", dur(c.PriorityChoiceMaxLagMs))
	}
	if c.ReplConvergenceTimeoutMs > 0 {
		w("replication_convergence_timeout_switchover: %s", dur(c.ReplConvergenceTimeoutMs))
	}
	if c.ManagerElectionDelayMs > 0 {
		w("manager_election_delay_after_quorum_loss: %s", dur(c.ManagerElectionDelayMs))
		w("manager_lock_acquire_delay_after_quorum_loss: %s", dur(c.ManagerLockAcquireDelayMs))
	}
	if c.ResetupHostLagMs > 0 {
		w("resetup_host_lag: %s", dur(c.ResetupHostLagMs))
	}
	if c.OptHighMs > 0 {
		w("optimization_config:")
		w("  high_replication_mark: %s", dur(c.OptHighMs))
		w("  low_replication_mark: %s", dur(c.OptLowMs))
	}
	if c.CustomLagQuery {
		w("queries:")
		w("  replication_lag: \"SELECT verif_lag AS Seconds_Behind_Master\"")
	}
	w("exclude_users: [ \"%s\" ]", "mysync-admin")
	w("test_disk_usage_file: %s/disk_usage", hd)
	w("test_filesystem_readonly_file: %s/fs_readonly", hd)
	w("dcs_wait_timeout: %dus", (2*c.SessionTimeoutMs+1000)*1000+7919+off)
	w("zookeeper:")
	w("  hostname: %s", zkHost)
	// non-round values: the zk client derives 1s / (2/3)T / (1/3)T timers from it and exact
	// coincidences of two timers inside one process have no controllable order
	w("  session_timeout: %dus", c.SessionTimeoutMs*1000+19387+off*101)
	w("  lock_held_ttl: %s", dur(c.LockHeldTTLMs))
	w("  namespace: /test")
	w("  hosts: [ \"zk1:2181\", \"zk2:2181\", \"zk3:2181\" ]")
	w("  backoff_rand_factor: 0")
	w("  backoff_interval: 100ms")
	w("  backoff_max_interval: 1s")
	w("  backoff_max_elapsed_time: 5s")
	w("  backoff_max_retries: 3")
	w("mysql:")
	w("  user: \"%s\"", inc)
	w("  password: pw")
	w("  replication_user: repl")
	w("  replication_password: rpw")
	w("  pid_file: %s/mysqld.pid", hd)
	w("  error_log: %s/error.log", hd)
	for _, h := range s.spec.Hosts {
		if h.Name == host {
			keys := make([]string, 0, len(h.Cfg))
			for k := range h.Cfg {
				keys = append(keys, k)
			}
			sort.Strings(keys)
			for _, k := range keys {
				w("%s: %s", k, h.Cfg[k])
			}
		}
	}
	cfgPath = filepath.Join(hd, fmt.Sprintf("mysync.%s.yaml", strings.ReplaceAll(strings.ReplaceAll(inc, ":", "_"), "#", "_")))
	os.WriteFile(cfgPath, []byte(b.String()), 0o644)
	return
}

// setDisk: pct < 0 makes the usage unmeasurable (the report file holds no number)
func (s *Sim) setDisk(host string, pct int) {
	if pct < 0 {
		os.WriteFile(filepath.Join(s.hostDir(host), "disk_usage"), []byte("n/a"), 0o644)
	} else {
		os.WriteFile(filepath.Join(s.hostDir(host), "disk_usage"), []byte(fmt.Sprint(pct)), 0o644)
	}
	if s.mon != nil {
		s.mon.onDisk(host, pct)
	}
	if sv := s.mysql.servers[host]; sv != nil {
		sv.DiskPct = pct
	}
}

func (s *Sim) setFSRO(host string, ro bool) {
	os.WriteFile(filepath.Join(s.hostDir(host), "fs_readonly"), []byte(fmt.Sprint(ro)), 0o644)
	if sv := s.mysql.servers[host]; sv != nil {
		sv.FSRO = ro
	}
}

func (s *Sim) fileExists(host, name string) bool {
	_, err := os.Stat(filepath.Join(s.hostDir(host), name))
	return err == nil
}

func (s *Sim) removeFile(host, name string) {
	os.Remove(filepath.Join(s.hostDir(host), name))
}

func (s *Sim) startDaemon(host string) (res *Daemon) {
	tracked(func() { res = s.startDaemon0(host) })
	return
}

func (s *Sim) startDaemon0(host string) *Daemon {
	if d := s.liveByHost[host]; d != nil && d.alive {
		return d
	}
	s.hostInc[host]++
	n := s.hostInc[host]
	inc := fmt.Sprintf("%s#%d", host, n)
	cfgPath, lockfile := s.writeConfig(host, inc, n, false)
	var a *app.App
	var err error
	labelled(inc, "daemon", func() { a, err = app.NewApp(cfgPath, "error", false) })
	if err != nil {
		panic(fmt.Sprintf("verifsim: NewApp failed for %s: %v", inc, err))
	}
	ctx, cancel := context.WithCancel(context.Background())
	d := &Daemon{inc: inc, host: host, kind: "daemon", lockfile: lockfile, cfgPath: cfgPath, ctx: ctx, cancel: cancel, alive: true, app: a, startedAt: s.now(), state: "FirstRun"}
	hookMu.Lock()
	ctxByLock[lockfile] = ctx
	hookMu.Unlock()
	s.daemons[inc] = d
	s.liveByHost[host] = d
	s.trace("DAEMON-START %s", inc)
	s.mon.onDaemonStart(d)
	labelled(inc, "daemon", func() {
		go func() {
			code := a.Run()
			hookMu.Lock()
			exitQ = append(exitQ, exitEv{inc, code})
			hookMu.Unlock()
			s.ping()
		}()
	})
	return d
}

// labelled: goroutines started inside f (and their descendants) carry the incarnation they belong
// to as profiler labels, which is how the goroutine census of C20 tells the processes apart.
func labelled(inc, kind string, f func()) {
	pprof.Do(context.Background(), pprof.Labels("verif_inc", inc, "verif_kind", kind), func(context.Context) { f() })
}

type exitEv struct {
	inc  string
	code int
}

var exitQ []exitEv

func (s *Sim) drainExits() {
	hookMu.Lock()
	q := exitQ
	exitQ = nil
	hookMu.Unlock()
	for _, e := range q {
		if d := s.daemons[e.inc]; d != nil {
			d.exited = true
			d.exitCode = e.code
			wasAlive := d.alive
			d.alive = false
			s.trace("DAEMON-EXIT %s code=%d", e.inc, e.code)
			if wasAlive && d.kind == "daemon" {
				if s.liveByHost[d.host] == d {
					delete(s.liveByHost, d.host)
				}
				s.mon.onDaemonExit(d, e.code)
			}
		}
	}
}

// killDaemon: process death. graceful=true is SIGTERM (context cancelled, calls still work
// until Run returns); graceful=false is kill -9 at an external call boundary: the context is
// cancelled, every later external call of the incarnation goes nowhere and never returns,
// its ZooKeeper connection is cut without a close request (session lives until timeout).
func (s *Sim) killDaemon(d *Daemon, graceful bool) {
	if !d.alive {
		return
	}
	s.trace("DAEMON-KILL %s graceful=%v", d.inc, graceful)
	if graceful {
		d.cancel()
		s.stats.Faults["daemon_sigterm"]++
		return
	}
	d.alive = false
	d.diedAt = s.now()
	deadIncs.Store(d.inc, true)
	d.cancel()
	for _, c := range s.net.snapshot() {
		if c.owner == d.inc {
			c.dead.Store(true)
			s.zk.connClosed(c)
		}
	}
	if s.liveByHost[d.host] == d {
		delete(s.liveByHost, d.host)
	}
	s.stats.Faults["daemon_kill"]++
	s.mon.onDaemonKill(d)
}

// runCLI runs a real mysync CLI entry point as its own "process" on host.
func (s *Sim) runCLI(host string, name string, f func(a *app.App) int) (res *Daemon) {
	tracked(func() { res = s.runCLI0(host, name, f) })
	return
}

func (s *Sim) runCLI0(host string, name string, f func(a *app.App) int) *Daemon {
	s.hostInc["cli:"+host]++
	n := s.hostInc["cli:"+host]
	inc := fmt.Sprintf("%s#c%d", host, n)
	cfgPath, lockfile := s.writeConfig(host, inc, 100+n, true)
	ctx, cancel := context.WithCancel(context.Background())
	hookMu.Lock()
	ctxByLock[lockfile] = ctx
	hookMu.Unlock()
	var a *app.App
	var err error
	labelled(inc, "cli", func() { a, err = app.NewApp(cfgPath, "fatal", true) })
	if err != nil {
		panic(fmt.Sprintf("verifsim: NewApp(cli) failed: %v", err))
	}
	d := &Daemon{inc: inc, host: host, kind: "cli", lockfile: lockfile, cfgPath: cfgPath, ctx: ctx, cancel: cancel, alive: true, app: a, startedAt: s.now()}
	s.daemons[inc] = d
	s.trace("CLI-START %s %s", inc, name)
	labelled(inc, "cli", func() {
		go func() {
			code := f(a)
			// not calling a.CloseLogger(): with an interactive logger it closes os.Stderr of this process
			hookMu.Lock()
			exitQ = append(exitQ, exitEv{inc, code})
			hookMu.Unlock()
			s.ping()
		}()
	})
	return d
}
