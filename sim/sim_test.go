package verifsim

import (
	"encoding/json"
	"fmt"
	"os"
	"os/signal"
	"runtime"
	"sort"
	"strings"
	"sync/atomic"
	"syscall"
	"testing"
	"testing/synctest"
	"time"

	"github.com/yandex/mysync/internal/verifsim/simrt"
)

type simInput struct {
	Mode    string `json:"mode"` // gen | replay
	Family  string `json:"family"`
	Seed    uint64 `json:"seed"`
	Tier    string `json:"tier"`
	Index   int    `json:"index"`
	Spec    *Spec  `json:"spec,omitempty"`
	Verbose bool   `json:"verbose,omitempty"`
	GenOnly bool   `json:"gen_only,omitempty"`
}

var stepCounter atomic.Int64

func TestSim(t *testing.T) {
	inPath, outPath := os.Getenv("VERIF_SIM_IN"), os.Getenv("VERIF_SIM_OUT")
	if inPath == "" {
		t.Skip("VERIF_SIM_IN not set")
	}
	raw, err := os.ReadFile(inPath)
	if err != nil {
		fmt.Fprintln(os.Stderr, "HARNESS: cannot read input:", err)
		os.Exit(2)
	}
	var in simInput
	if err := json.Unmarshal(raw, &in); err != nil {
		fmt.Fprintln(os.Stderr, "HARNESS: bad input:", err)
		os.Exit(2)
	}
	var spec *Spec
	if in.Mode == "replay" {
		spec = in.Spec
	} else {
		spec = generate(in.Family, in.Seed, in.Tier, in.Index)
	}
	if spec == nil {
		fmt.Fprintln(os.Stderr, "HARNESS: no spec")
		os.Exit(2)
	}
	if in.GenOnly {
		b, _ := json.Marshal(&Result{Spec: spec})
		os.WriteFile(outPath, b, 0o644)
		os.Exit(0)
	}
	// the first signal.Notify of the process must happen outside the bubble
	signal.Notify(make(chan os.Signal, 1), syscall.SIGUSR1)
	registerDriver()
	dir, err := os.MkdirTemp("", "verifsim-run-")
	if err != nil {
		fmt.Fprintln(os.Stderr, "HARNESS:", err)
		os.Exit(2)
	}
	go watchdog(dir)
	synctest.Test(t, func(t *testing.T) {
		res := runSpec(spec, dir, in.Verbose)
		b, _ := json.Marshal(res)
		if err := os.WriteFile(outPath, b, 0o644); err != nil {
			fmt.Fprintln(os.Stderr, "HARNESS:", err)
			os.RemoveAll(dir)
			os.Exit(2)
		}
		if !in.Verbose {
			os.RemoveAll(dir)
		} else {
			fmt.Fprintln(os.Stderr, "run directory kept:", dir)
		}
		os.Exit(0)
	})
}

func watchdog(dir string) {
	last := stepCounter.Load()
	lastChange := time.Now()
	for {
		time.Sleep(2 * time.Second)
		if c := stepCounter.Load(); c != last {
			last = c
			lastChange = time.Now()
			continue
		}
		stalled := time.Since(lastChange) > watchdogScale*25*time.Second
		if !stalled && time.Since(lastChange) > 4*time.Second {
			// a computation that also allocates without bound must not eat the machine first
			var ms runtime.MemStats
			runtime.ReadMemStats(&ms)
			stalled = ms.HeapAlloc > 3<<30
		}
		if stalled {
			buf := make([]byte, 1<<22)
			n := runtime.Stack(buf, true)
			st := string(buf[:n])
			os.Stderr.WriteString(st)
			// a goroutine *running* (not blocked) inside mysync code for that long is a
			// non-terminating computation in mysync, not harness trouble
			code := 2
			for _, g := range strings.Split(st, "\n\n") {
				hdr, _, _ := strings.Cut(g, "\n")
				if strings.Contains(hdr, "[running") || strings.Contains(hdr, "[runnable") {
					if strings.Contains(g, "mysync/internal/app.") && !strings.Contains(g, "verifsim.watchdog") {
						fmt.Fprintln(os.Stderr, "WATCHDOG: goroutine running inside internal/app for >25s real time")
						// innermost mysync frame of that goroutine
						for _, l := range strings.Split(g, "\n") {
							if strings.HasPrefix(l, "github.com/yandex/mysync/internal/") && !strings.Contains(l, "/verifsim") {
								if i := strings.LastIndex(l, "("); i > 0 {
									l = l[:i]
								}
								fmt.Fprintln(os.Stderr, "WATCHDOG-FUNC: "+l)
								break
							}
						}
						code = 3
					}
				}
			}
			fmt.Fprintf(os.Stderr, "WATCHDOG: controller made no step for %v\n", time.Since(lastChange).Round(time.Second))
			os.RemoveAll(dir)
			os.Exit(code)
		}
	}
}

func runSpec(spec *Spec, dir string, verbose bool) *Result {
	s := &Sim{spec: spec, seed: spec.Seed, seedS: fmt.Sprint(spec.Seed), t0: time.Now(), note: make(chan struct{}, 1),
		occ: map[string]int{}, daemons: map[string]*Daemon{}, hostInc: map[string]int{}, liveByHost: map[string]*Daemon{}, dir: dir,
		explicit: map[string]string{}, verbose: verbose,
		stats: &Stats{Faults: map[string]int{}, Probes: map[string]int{}}}
	theSim = s
	simrt.Seed = spec.Seed
	if verbose {
		s.traceLog, _ = os.Create(dir + "/trace.log")
	}
	for _, e := range spec.Explicit {
		s.explicit[e.Key] = e.Fault
	}
	s.mysql = newWorld(s)
	s.zk = newZK(s)
	s.net = newNet(s)
	s.mon = newMonitors(s)
	installOracles(s.mon)
	installHooks(s)
	if spec.Engine == "B" {
		return runEngineB(s)
	}
	s.buildWorld()
	// periodic world events
	var replTick func()
	replN := 0
	replTick = func() {
		replN++
		s.mysql.replTick()
		d := ms(spec.World.ReplTickMs)
		d = d*7/10 + time.Duration(s.h("repltick", fmt.Sprint(replN))%uint64(d*6/10+1))
		s.after(d, "repl", replTick)
	}
	s.after(ms(spec.World.ReplTickMs), "repl", replTick)
	var zkTick func()
	zkTick = func() {
		s.zk.expiryTick()
		s.after(250*time.Millisecond, "zkexp", zkTick)
	}
	s.after(250*time.Millisecond, "zkexp", zkTick)
	s.startWorkload()
	// daemons
	for i, h := range spec.Hosts {
		if h.Role == "decoy" || h.NoDaemon {
			continue
		}
		host := h.Name
		delay := ms(h.StartDelayMs)
		if delay == 0 {
			delay = time.Duration(137031*(i+1)) * time.Microsecond
		}
		s.after(delay, "start-daemon", func() { s.startDaemon(host) })
	}
	s.scheduleTimeline()
	if spec.World.AutoResetupMs > 0 {
		pending := map[string]bool{}
		var agent func()
		agent = func() {
			for _, h := range spec.Hosts {
				host := h.Name
				if h.Role == "decoy" || pending[host] || !s.fileExists(host, "resetup") {
					continue
				}
				pending[host] = true
				s.after(ms(spec.World.AutoResetupMs), "resetup", func() {
					pending[host] = false
					if m := s.mysql.servers[s.recordedMaster()]; m != nil && m.Up && m.Name != host {
						s.stats.Probes["auto_resetup_done"]++
						s.doResetup(host)
					}
				})
			}
			s.after(2*time.Second, "resetup-agent", agent)
		}
		s.after(2*time.Second, "resetup-agent", agent)
	}
	s.run(ms(spec.DurationMs))
	if spec.LivenessMs > 0 {
		// slow-but-moving runs are extended (up to 3 bounds) instead of flagged (DESIGN §5)
		for ext := 0; ext < 2 && !s.stop; ext++ {
			s.mon.afterEvent()
			if len(s.mon.canonicalProblems(true)) == 0 {
				break
			}
			if s.mon.final != nil && s.mon.final.stableFor() >= ms(spec.LivenessMs)/3 {
				break
			}
			s.stats.Probes["liveness_extended"]++
			s.run(s.now() + ms(spec.LivenessMs))
		}
	}
	stepCounter.Add(1)
	s.mon.afterEvent()
	s.mon.atEnd()
	return s.result()
}

func sortedKeys(m map[string]bool) []string {
	r := make([]string, 0, len(m))
	for k := range m {
		r = append(r, k)
	}
	sort.Strings(r)
	return r
}

func (s *Sim) result() *Result {
	s.stats.SimSeconds = s.now().Seconds()
	s.stats.States = sortedKeys(s.mon.states)
	s.stats.Transitions = sortedKeys(s.mon.transitions)
	s.stats.Interleavings = sortedKeys(s.mon.interleave)
	if len(s.mysql.unknown) > 0 {
		s.stats.Unknown = s.mysql.unknown
	}
	res := &Result{Spec: s.spec, Violations: s.mon.violations, Stats: s.stats,
		TraceHash: fmt.Sprintf("%016x", s.traceHash), TrajHash: fmt.Sprintf("%016x", s.mon.traj), Fired: s.fired, Calls: s.pilotCalls}
	res.Nontrivial = s.mon.nontrivial()
	res.EndState = s.mon.abstractState()
	if s.traceLog != nil {
		s.traceLog.Close()
	}
	return res
}
