package verifsim

import (
	"fmt"
	"sort"
	"strings"
)

// C01 - promotion only of a caught-up node backed by a frozen quorum.
type orC01 struct {
	baseOracle
	heldAtFreeze map[*iterRec]map[string]GTIDSet
	lastProm     map[string]uint64 // iteration key -> seq of promotion
	late         bool
}

// report: a promotion statement that the server executed after its sender had given up waiting
// for it is judged like any other promotion but reported under its own kind
func (o *orC01) report(kind, sig, detail string) {
	if o.late {
		o.m.violate("C01", "late_statement", "promotion-statement-executed-after-sender-gave-up:"+kind, detail)
		return
	}
	o.m.violate("C01", kind, sig, detail)
}

func (o *orC01) name() string { return "C01" }

func firstRead(it *iterRec, path string) (string, bool) {
	for _, r := range it.reads {
		if r.path == path && r.op == "get" {
			if r.err != 0 {
				return "", false
			}
			return r.data, true
		}
	}
	return "", false
}

// hasTop: one of the sets contains all the others
func hasTop(sets []GTIDSet) bool {
	for i := range sets {
		ok := true
		for j := range sets {
			if !sets[j].SubsetOf(sets[i]) {
				ok = false
				break
			}
		}
		if ok {
			return true
		}
	}
	return false
}

func isChain(sets []GTIDSet) bool {
	for i := range sets {
		for j := i + 1; j < len(sets); j++ {
			if !sets[i].SubsetOf(sets[j]) && !sets[j].SubsetOf(sets[i]) {
				return false
			}
		}
	}
	return true
}

// frozenByTrace: hosts on which this iteration's read-only statement and (for replicas) the
// IO-thread stop were both reported successful to the manager.
func frozenByTrace(it *iterRec, oldMaster string) []string {
	ro := map[string]bool{}
	io := map[string]bool{}
	// freeze statements are those before the first priority read of phase 3 (later STOP/START
	// IO_THREAD pairs in the same iteration are semi-sync restarts, not freezes)
	var cut uint64 = ^uint64(0)
	for _, r := range it.reads {
		if strings.HasPrefix(r.path, "ha_nodes/") && r.op == "get" {
			cut = r.seq
			break
		}
	}
	for _, e := range it.sql {
		if !e.toldOK() || e.Seq > cut {
			continue
		}
		switch {
		case e.Query == "SET GLOBAL super_read_only = 1":
			ro[e.Dst] = true
		case strings.HasPrefix(e.Query, "STOP SLAVE IO_THREAD"), strings.HasPrefix(e.Query, "STOP REPLICA IO_THREAD"):
			io[e.Dst] = true
		}
	}
	var r []string
	for h := range ro {
		if io[h] || h == oldMaster {
			r = append(r, h)
		}
	}
	sort.Strings(r)
	return r
}

func (o *orC01) onSQL(ev *SQLEvent) {
	m := o.m
	s := m.s
	// what a member held when it was frozen (later steps of the same attempt re-point the
	// replicas, which drops received-but-unapplied tails)
	if ev.It != nil && ev.toldOK() && m.isDaemon(ev.Src) && (strings.HasPrefix(ev.Query, "STOP SLAVE IO_THREAD") || strings.HasPrefix(ev.Query, "STOP REPLICA IO_THREAD") || ev.Query == "SET GLOBAL super_read_only = 1") {
		if sv := s.mysql.servers[ev.Dst]; sv != nil {
			if o.heldAtFreeze == nil {
				o.heldAtFreeze = map[*iterRec]map[string]GTIDSet{}
			}
			if o.heldAtFreeze[ev.It] == nil {
				o.heldAtFreeze[ev.It] = map[string]GTIDSet{}
				if len(o.heldAtFreeze) > 8 {
					for k := range o.heldAtFreeze {
						if !k.open && k != ev.It {
							delete(o.heldAtFreeze, k)
						}
					}
				}
			}
			o.heldAtFreeze[ev.It][ev.Dst] = sv.Holds().Clone()
		}
	}
	if !(ev.Applied && ev.Query == "SET GLOBAL read_only = 0" && m.isDaemon(ev.Src) && ev.Dst != m.master) {
		return
	}
	if !ev.Effective {
		// the node was writable already (e.g. by a statement of an earlier attempt that was
		// executed late): nothing is made writable here
		m.probe("c01_promotion_statement_without_effect")
		return
	}
	it := ev.It
	if it == nil {
		m.violate("C01", "promotion_outside_iteration", "promote-outside-state-handler", fmt.Sprintf("%s made %s writable outside any state handler", ev.Src, ev.Dst))
		return
	}
	if ev.CallerGone {
		// the statement was executed by the server after its sender had given up waiting for it
		// (and possibly moved on): judged like any other promotion, reported under its own name
		o.late = true
		defer func() { o.late = false }()
	}
	H := s.mysql.servers[ev.Dst]
	cfg := &s.spec.Cfg
	// A: published list as this manager read it when the iteration started
	var A []string
	if raw, ok := firstRead(it, "active_nodes"); ok {
		A = parseStrList(raw)
	} else {
		A = append([]string(nil), m.active...)
		m.probe("c01_active_from_truth")
	}
	var members []string
	for _, h := range A {
		if m.isCascade(h) {
			continue
		}
		members = append(members, h)
	}
	q := quorumFor(len(A), cfg)
	hRO := strings.Contains(ev.Before, "ro=true")
	var F, deficits []string
	for _, h := range members {
		sv := s.mysql.servers[h]
		if sv == nil || !sv.Up {
			// frozen by this attempt and lost afterwards (the scenario took it down during the very
			// pass): it was read-only when the manager froze it and what it held then is what counts
			if x, ok := o.heldAtFreeze[it][h]; ok && sv != nil && sv.lastWorldChange >= it.startT && x.SubsetOf(H.Executed) {
				m.probe("c01_member_lost_after_freeze")
				F = append(F, h)
				continue
			}
			deficits = append(deficits, h+":down")
			continue
		}
		ro := sv.ReadOnly
		if sv == H {
			ro = hRO
		}
		if !ro {
			deficits = append(deficits, h+":writable")
			continue
		}
		// what the member held when this attempt froze it (re-pointing and promotion drop
		// received-but-unapplied tails afterwards)
		held := sv.Holds()
		if x, ok := o.heldAtFreeze[it][h]; ok {
			held = x
		}
		if !held.SubsetOf(H.Executed) {
			miss := held.Minus(H.Executed)
			if len(miss) > 3 {
				miss = miss[:3]
			}
			deficits = append(deficits, fmt.Sprintf("%s:holds %v not executed on %s", h, miss, H.Name))
			continue
		}
		F = append(F, h)
	}
	// cascade replicas that are (still) in the list never count; when the quorum would be reached
	// only with them, that is C16's subject as well
	if m.primary["C16"] && len(F) < q {
		nc := 0
		for _, h := range A {
			if sv := s.mysql.servers[h]; m.isCascade(h) && sv != nil && sv.Up && sv.ReadOnly {
				nc++
			}
		}
		if nc > 0 && len(F)+nc >= q {
			m.violate("C16", "quorum", "promotion-quorum-reached-only-with-cascade-replicas", fmt.Sprintf("%s promoted %s: active=%v quorum=%d, frozen&contained HA members=%v, %d cascade replica(s) in the list", ev.Src, H.Name, A, q, F, nc))
		}
	}
	asyncException := cfg.Async && cfg.AsyncAllowedLagMs > 0 && strings.Contains(m.switchRaw, `"cause":"auto"`)
	m.probe("c01_promotion_checked")
	if it.faults > 0 {
		m.probe("c01_promotion_with_fault_in_iteration")
	}
	if len(F) < q && !asyncException {
		o.report("frozen_quorum", "promotion-without-caught-up-frozen-quorum",
			fmt.Sprintf("%s promoted %s: active=%v quorum=%d, frozen&contained=%v, others: %v", ev.Src, H.Name, A, q, F, deficits))
	}
	if !contains(A, H.Name) {
		o.report("promoted_not_active", "promoted-host-not-in-active-list", fmt.Sprintf("%s promoted %s which is not in active list %v", ev.Src, H.Name, A))
	}
	if from := jsonField(m.switchRaw, "from"); from != "" && from == H.Name {
		m.violate("C01", "promoted_from_host", "promoted-the-from-host", fmt.Sprintf("%s promoted %s, the host the switch moves away from", ev.Src, H.Name))
	}
	if m.isCascade(H.Name) {
		m.violate("C16", "cascade_promoted", "cascade-replica-promoted", fmt.Sprintf("%s promoted cascade replica %s", ev.Src, H.Name))
	}
	if m.recovery[H.Name] {
		m.violate("C11", "promoted_in_recovery", "host-marked-for-recovery-promoted", fmt.Sprintf("%s promoted %s while recovery/%s exists", ev.Src, H.Name, H.Name))
	}
	// split-brain clause, promotion side
	fr := frozenByTrace(it, m.master)
	var sets []GTIDSet
	var desc []string
	for _, h := range fr {
		if sv := s.mysql.servers[h]; sv != nil && sv.Up {
			held := sv.Holds()
			if x, ok := o.heldAtFreeze[it][h]; ok {
				held = x
			}
			sets = append(sets, held)
			desc = append(desc, h+"="+held.String())
		}
	}
	if len(sets) >= 2 && !isChain(sets) {
		kind, sig := "splitbrain_promoted", "promotion-despite-incomparable-frozen-sets"
		if hasTop(sets) {
			kind, sig = "splitbrain_contained", "incomparable-members-below-a-member-containing-all:promoted"
		}
		o.report(kind, sig, fmt.Sprintf("%s promoted %s although frozen members %v hold incomparable transaction sets: %v", ev.Src, H.Name, fr, desc))
	}
	if o.lastProm == nil {
		o.lastProm = map[string]uint64{}
	}
	o.lastProm[fmt.Sprintf("%s/%d", it.inc, it.n)] = ev.Seq
}

func jsonField(raw, key string) string {
	k := `"` + key + `":"`
	i := strings.Index(raw, k)
	if i < 0 {
		return ""
	}
	rest := raw[i+len(k):]
	j := strings.Index(rest, `"`)
	if j < 0 {
		return ""
	}
	return rest[:j]
}

// split-brain clause, abort side: positions were collected from every frozen host and the
// sets are not a chain -> emergency file must exist and nothing was promoted.
func (o *orC01) onIterLeave(it *iterRec) {
	m := o.m
	s := m.s
	if it.state != "Manager" || len(it.sql) == 0 {
		return
	}
	fr := frozenByTrace(it, m.master)
	if len(fr) < 2 {
		return
	}
	m.probe("c01_attempt_froze_two_or_more")
	// phase 3 completed for a host iff its priority znode was read after the freeze
	read := map[string]bool{}
	for _, r := range it.reads {
		if strings.HasPrefix(r.path, "ha_nodes/") && r.op == "get" && (r.err == 0 || r.err == zkErrNoNode) {
			read[strings.TrimPrefix(r.path, "ha_nodes/")] = true
		}
	}
	var sets []GTIDSet
	var descr []string
	for _, h := range fr {
		if !read[h] {
			return
		}
		sv := s.mysql.servers[h]
		if sv == nil || !sv.Up {
			return
		}
		if sv.lastWorldChange >= it.startT {
			return // the world changed this server after the attempt began: what was collected may differ from what is there now
		}
		// what the member held when it was frozen is what the attempt collected; a catch-up from
		// the most recent member later in the same attempt changes the holdings again
		held := sv.Holds()
		if x, ok := o.heldAtFreeze[it][h]; ok {
			held = x
		}
		sets = append(sets, held)
		descr = append(descr, h+"="+held.String())
	}
	if isChain(sets) {
		return
	}
	m.probe("c01_splitbrain_attempt_seen")
	d := m.daemonOf(it.inc)
	if d == nil || !d.alive {
		return
	}
	if _, promoted := o.lastProm[fmt.Sprintf("%s/%d", it.inc, it.n)]; promoted {
		return // already reported at the promotion
	}
	if !s.fileExists(d.host, "emerge") {
		kind, sig := "splitbrain_no_emerge", "splitbrain-abort-without-emergency-file"
		if hasTop(sets) {
			// not a chain, but one member holds everything the others hold
			kind, sig = "splitbrain_contained", "incomparable-members-below-a-member-containing-all:no-emergency-file"
		}
		m.violate("C01", kind, sig, fmt.Sprintf("%s froze %v with incomparable sets and collected all positions but wrote no emergency file: %v", it.inc, fr, descr))
	}
}
