package verifsim

import (
	"fmt"
	"sort"
	"strings"
	"time"
)

// canonicalProblems evaluates the canonical final state (DESIGN §4) on ground truth.
func (m *Monitors) canonicalProblems(checkAcked bool) []string {
	s := m.s
	var probs []string
	master := m.master
	var writable []string
	for _, sv := range s.mysql.sorted() {
		if sv.Registered && sv.Up && !sv.ReadOnly {
			writable = append(writable, sv.Name)
		}
	}
	if len(writable) != 1 {
		probs = append(probs, fmt.Sprintf("writable servers = %v (want exactly one)", writable))
	} else if writable[0] != master {
		probs = append(probs, fmt.Sprintf("writable server %s != recorded master %q", writable[0], master))
	}
	msv := s.mysql.servers[master]
	if msv == nil || !msv.Up {
		probs = append(probs, fmt.Sprintf("recorded master %q is not up", master))
		return probs
	}
	if msv.HasChannel {
		probs = append(probs, fmt.Sprintf("recorded master %s still has a replication channel", master))
	}
	if msv.Offline {
		probs = append(probs, fmt.Sprintf("recorded master %s is offline", master))
	}
	for _, sv := range s.mysql.sorted() {
		if sv == msv || !sv.Registered || !sv.Up {
			continue
		}
		if s.net.blocked(sv.Name, master) {
			continue
		}
		if !m.isHA(sv.Name) {
			if m.isCascade(sv.Name) {
				if !sv.ReadOnly {
					probs = append(probs, fmt.Sprintf("cascade replica %s is writable", sv.Name))
				}
				if !sv.HasChannel || !sv.IORun || sv.IOConnecting || !sv.SQLRun {
					probs = append(probs, fmt.Sprintf("cascade replica %s is not replicating (src=%s io=%v sql=%v)", sv.Name, sv.Source, sv.IORun && !sv.IOConnecting, sv.SQLRun))
				}
			}
			continue
		}
		if !sv.ReadOnly {
			probs = append(probs, fmt.Sprintf("HA replica %s is writable", sv.Name))
		}
		if !sv.HasChannel || sv.Source != master {
			probs = append(probs, fmt.Sprintf("HA replica %s has source %q, want %s", sv.Name, sv.Source, master))
		} else if !sv.IORun || sv.IOConnecting || !sv.SQLRun {
			probs = append(probs, fmt.Sprintf("HA replica %s replication not running (io=%v connecting=%v sql=%v ioerr=%d sqlerr=%d)", sv.Name, sv.IORun, sv.IOConnecting, sv.SQLRun, sv.LastIOErrno, sv.LastSQLErrno))
		}
	}
	if m.switchRaw != "" {
		probs = append(probs, "switch request still pending: "+m.switchRaw)
	}
	if checkAcked && s.spec.Cfg.SemiSync {
		if !m.acked.SubsetOf(msv.Holds()) {
			missing := m.acked.Minus(msv.Holds())
			if len(missing) > 5 {
				missing = missing[:5]
			}
			probs = append(probs, fmt.Sprintf("acknowledged transactions missing on master %s: %v", master, missing))
		}
	}
	return probs
}

func probClass(p string) string {
	switch {
	case strings.HasPrefix(p, "writable servers"):
		return "writable-count"
	case strings.HasPrefix(p, "writable server"):
		return "writable-not-recorded-master"
	case strings.Contains(p, "is not up"):
		return "master-down"
	case strings.Contains(p, "still has a replication channel"):
		return "master-has-channel"
	case strings.Contains(p, "is offline"):
		return "master-offline"
	case strings.Contains(p, "cascade replica"):
		return "cascade-not-following"
	case strings.Contains(p, "is writable"):
		return "replica-writable"
	case strings.Contains(p, "has source"):
		return "replica-wrong-source"
	case strings.Contains(p, "replication not running"):
		return "replica-not-running"
	case strings.Contains(p, "still pending"):
		return "switch-pending"
	case strings.Contains(p, "acknowledged transactions missing"):
		return "acked-txn-lost"
	}
	return "other"
}

// finalStateOracle is shared by C02, C07 (and C09/C10 variants): after heal + bound the cluster
// must be canonical. Liveness alarm only if the abstract state was stable for the last third.
type finalOracle struct {
	baseOracle
	prop       string
	lastChange time.Duration
	lastSig    string
	finishedBy string // C07: incarnation that recorded the pending request as succeeded
}

func (o *finalOracle) name() string { return o.prop + "-final" }

func (o *finalOracle) afterEvent() {}

func (o *finalOracle) onIterLeave(it *iterRec) {
	st := o.m.stabilitySig()
	if st != o.lastSig {
		o.lastSig = st
		o.lastChange = o.m.s.now()
	}
}

func (o *finalOracle) stableFor() time.Duration { return o.m.s.now() - o.lastChange }

// C07, while the run lasts: once the next manager has recorded the request as succeeded, the
// incarnation that lost the coordination service in the middle of it makes nothing writable
func (o *finalOracle) onZK(e *ZKEvent) {
	if o.prop != "C07" || e.Err != 0 || !o.m.isDaemon(e.Inc) {
		return
	}
	switch {
	case e.Path == "/test/last_switch" && (e.Op == "set" || e.Op == "create"):
		if sw := parseSwitch(e.Data); sw != nil && sw.Result != nil && sw.Result.Ok {
			o.finishedBy = e.Inc
		}
	case e.Path == "/test/switch" && e.Op == "create":
		o.finishedBy = ""
	}
}

func (o *finalOracle) onSQL(ev *SQLEvent) {
	m := o.m
	if o.prop != "C07" || o.finishedBy == "" || !ev.Applied || !ev.Effective || ev.Query != "SET GLOBAL read_only = 0" || !m.isDaemon(ev.Src) {
		return
	}
	if ev.Src != o.finishedBy && m.switchRaw == "" && ev.Dst != m.master && m.lockOwner != ev.Src {
		m.violate("C07", "second_master", "node-made-writable-by-the-deposed-manager-after-the-request-was-finished", fmt.Sprintf("%s made %s writable after %s had finished the request with master %s", ev.Src, ev.Dst, o.finishedBy, m.master))
	}
}

func (o *finalOracle) atEnd() {
	m := o.m
	sp := m.s.spec
	if sp.LivenessMs <= 0 || o.prop == "C10x" {
		return
	}
	probs := m.canonicalProblems(true)
	if len(probs) == 0 {
		m.probe("final_state_canonical")
		return
	}
	sort.Strings(probs)
	// safety part (no liveness excuse): acknowledged transaction lost
	for _, p := range probs {
		if probClass(p) == "acked-txn-lost" {
			m.violate(o.prop, "final", "acked-txn-lost", p)
			return
		}
	}
	// two writable servers is a safety matter as well
	nW := 0
	for _, sv := range m.s.mysql.sorted() {
		if sv.Registered && sv.Up && !sv.ReadOnly {
			nW++
		}
	}
	if nW > 1 {
		m.violate(o.prop, "final", probClass(probs[0]), strings.Join(probs, "; "))
		return
	}
	// everything else is "the cluster has been brought back": that needs a living manager
	if d := m.s.daemons[m.lockOwner]; m.lockOwner == "" || d == nil || !d.alive {
		m.probe("final_no_living_manager")
		return
	}
	m.violate(o.prop, "final", probClass(probs[0]), strings.Join(probs, "; "))
}
