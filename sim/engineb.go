package verifsim

// Engine B: K real zkDCS instances (real go-zookeeper client) against fakezk over simnet,
// driven by generated operation sequences. Decides C03 (lock part) and C15.

import (
	"context"
	"errors"
	"fmt"
	"sort"
	"strings"
	"sync"
	"sync/atomic"
	"time"

	"github.com/yandex/mysync/internal/dcs"
	"github.com/yandex/mysync/internal/log"
)

var evSeqA atomic.Uint64

type dcsHist struct {
	Client int
	Inc    string
	Op     string
	Path   string // as spelled by the caller
	Key    string // normalised
	Value  string
	InvSeq uint64
	RetSeq uint64
	InvT   time.Duration
	RetT   time.Duration
	Result string // ok | true | false | exists | notfound | malformed | error:<text>
	Got    string // value / children returned
	Done   bool
}

var histMu sync.Mutex

type bClient struct {
	id    int
	inc   string
	d     dcs.DCS
	alive bool
	gen   int
}

func normKey(p string) string {
	parts := strings.Split(p, "/")
	var out []string
	for _, x := range parts {
		if x != "" {
			out = append(out, x)
		}
	}
	return strings.Join(out, "/")
}

func (s *Sim) newBClient(id, gen int) *bClient {
	c := &s.spec.Cfg
	name := fmt.Sprintf("k%d", id)
	inc := fmt.Sprintf("%s#%d", name, gen)
	zkHost := fmt.Sprintf("%s-%d", name, gen)
	if c.SameZKIdentity {
		zkHost = name
	}
	hookMu.Lock()
	zkHostToInc[zkHost] = inc
	hookMu.Unlock()
	cfg, _ := dcs.DefaultZookeeperConfig()
	cfg.Hostname = zkHost
	cfg.SessionTimeout = ms(c.SessionTimeoutMs) + time.Duration(19387+id*101)*time.Microsecond
	cfg.LockHeldTTL = ms(c.LockHeldTTLMs)
	cfg.Namespace = "/test"
	cfg.Hosts = []string{"zk1:2181", "zk2:2181", "zk3:2181"}
	cfg.BackoffRandFactor = 0
	cfg.BackoffInterval = 100 * time.Millisecond
	cfg.BackoffMaxInterval = time.Second
	cfg.BackoffMaxElapsedTime = 5 * time.Second
	cfg.BackoffMaxRetries = 3
	logger, _, _, err := log.Open("/dev/null", "fatal", 1000, 0)
	if err != nil {
		panic(err)
	}
	ctx := context.Background()
	d := &Daemon{inc: inc, host: name, kind: "client", alive: true, ctx: ctx, cancel: func() {}}
	s.daemons[inc] = d
	bc := &bClient{id: id, inc: inc, alive: true, gen: gen}
	// NewZookeeper blocks (retry/backoff) until the first connection attempt is made; run it
	// in the client's own goroutine
	return bcInit(s, bc, &cfg, logger, ctx)
}

func bcInit(s *Sim, bc *bClient, cfg *dcs.ZookeeperConfig, logger *log.Logger, ctx context.Context) *bClient {
	d, err := dcs.NewZookeeper(ctx, cfg, logger)
	if err != nil {
		panic("verifsim: NewZookeeper: " + err.Error())
	}
	bc.d = d
	return bc
}

func resultOf(err error) string {
	switch {
	case err == nil:
		return "ok"
	case errors.Is(err, dcs.ErrExists):
		return "exists"
	case errors.Is(err, dcs.ErrNotFound):
		return "notfound"
	case errors.Is(err, dcs.ErrMalformed):
		return "malformed"
	}
	return "error:" + err.Error()
}

func (s *Sim) runBOp(bc *bClient, op *DCSOp, hist *[]*dcsHist) {
	h := &dcsHist{Client: bc.id, Inc: bc.inc, Op: op.Op, Path: op.Path, Key: normKey(op.Path), Value: op.Value, InvSeq: evSeqA.Load(), InvT: s.now()}
	histMu.Lock()
	*hist = append(*hist, h)
	histMu.Unlock()
	d := bc.d
	switch op.Op {
	case "acquire":
		if d.AcquireLock("manager") {
			h.Result = "true"
		} else {
			h.Result = "false"
		}
	case "release":
		d.ReleaseLock("manager")
		h.Result = "ok"
	case "create":
		h.Result = resultOf(d.Create(op.Path, op.Value))
	case "create_eph":
		h.Result = resultOf(d.CreateEphemeral(op.Path, op.Value))
	case "set":
		h.Result = resultOf(d.Set(op.Path, op.Value))
	case "set_eph":
		h.Result = resultOf(d.SetEphemeral(op.Path, op.Value))
	case "get":
		var v string
		err := d.Get(op.Path, &v)
		h.Result = resultOf(err)
		h.Got = v
	case "delete":
		h.Result = resultOf(d.Delete(op.Path))
	case "children":
		ch, err := d.GetChildren(op.Path)
		h.Result = resultOf(err)
		sort.Strings(ch)
		h.Got = strings.Join(ch, ",")
	case "tree":
		t, err := d.GetTree(op.Path)
		h.Result = resultOf(err)
		h.Got = fmt.Sprint(t)
	case "initialize":
		d.Initialize()
		h.Result = "ok"
	case "wait_connected":
		if d.WaitConnected(ms(s.spec.Cfg.SessionTimeoutMs) * 3) {
			h.Result = "true"
		} else {
			h.Result = "false"
		}
	case "idle":
		h.Result = "ok"
	default:
		panic("verifsim: unknown dcs op " + op.Op)
	}
	h.RetSeq = evSeqA.Load()
	h.RetT = s.now()
	histMu.Lock()
	h.Done = true
	histMu.Unlock()
}

func runEngineB(s *Sim) *Result {
	sp := s.spec
	s.zk.rawSet("/test", "")
	var zkTick func()
	zkTick = func() {
		s.zk.expiryTick()
		s.after(250*time.Millisecond, "zkexp", zkTick)
	}
	s.after(250*time.Millisecond, "zkexp", zkTick)
	nClients := 0
	for _, op := range sp.DCSOps {
		if op.Client > nClients {
			nClients = op.Client
		}
	}
	var hist []*dcsHist
	clients := map[int]*bClient{}
	var cmu sync.Mutex
	startClient := func(id, gen int, ops []DCSOp) {
		go func() {
			bc := s.newBClient(id, gen)
			cmu.Lock()
			clients[id] = bc
			cmu.Unlock()
			bc.d.WaitConnected(ms(sp.Cfg.SessionTimeoutMs) * 2)
			for i := range ops {
				op := &ops[i]
				if op.GapMs > 0 {
					time.Sleep(ms(op.GapMs) + time.Duration(id*13+i)*time.Microsecond)
				}
				if op.Op == "restart" {
					// process restart: the old connection is cut without close (session lives on
					// until it times out), a new process with a new (or the same) identity starts
					hookMu.Lock()
					restartQ = append(restartQ, bc.inc)
					hookMu.Unlock()
					s.ping()
					time.Sleep(ms(op.GapMs) + 50*time.Millisecond)
					gen++
					bc = s.newBClient(id, gen)
					cmu.Lock()
					clients[id] = bc
					cmu.Unlock()
					bc.d.WaitConnected(ms(sp.Cfg.SessionTimeoutMs) * 2)
					continue
				}
				s.runBOp(bc, op, &hist)
			}
		}()
	}
	for id := 1; id <= nClients; id++ {
		var ops []DCSOp
		for _, op := range sp.DCSOps {
			if op.Client == id {
				ops = append(ops, op)
			}
		}
		id := id
		s.after(time.Duration(id)*37*time.Millisecond, "start-client", func() { startClient(id, 1, ops) })
	}
	s.scheduleTimeline()
	s.bHist = &hist
	s.run(ms(sp.DurationMs))
	stepCounter.Add(1)
	s.mon.afterEvent()
	checkEngineB(s, hist)
	s.mon.atEnd()
	return s.result()
}

var restartQ []string

func (s *Sim) drainRestarts() {
	hookMu.Lock()
	q := restartQ
	restartQ = nil
	hookMu.Unlock()
	for _, inc := range q {
		if d := s.daemons[inc]; d != nil && d.alive {
			d.alive = false
			deadIncs.Store(inc, true)
			for _, c := range s.net.snapshot() {
				if c.owner == inc {
					c.dead.Store(true)
					s.zk.connClosed(c)
				}
			}
			s.stats.Faults["client_process_restart"]++
			s.trace("CLIENT-KILL %s", inc)
		}
	}
}
