package verifsim

import (
	"fmt"
	"strings"
	"time"
)

// C08 - lost coordination service: fence the node unless provably safe (reference decision of DESIGN App. D).
type orC08 struct {
	baseOracle
	firstUnreach map[string]time.Duration // per incarnation: first Lost iteration (since the loss) in which some replica was unreachable
	mustFenceRun map[string]int           // consecutive completed MUST_FENCE iterations without a fence attempt
}

func (o *orC08) name() string { return "C08" }

type lostClass struct {
	notHA, single, disabled            bool
	isMaster                           bool
	live, needStrict, needLenient, nHA int
	unreach                            bool
	up                                 bool
}

func (o *orC08) classify(inc string) lostClass {
	m := o.m
	s := m.s
	cfg := &s.spec.Cfg
	L := srcHostOf(inc)
	lsv := s.mysql.servers[L]
	var c lostClass
	ha := s.zk.children("/test/ha_nodes")
	c.nHA = len(ha)
	c.notHA = !contains(ha, L)
	c.single = len(ha) == 1
	c.disabled = cfg.DisableSetROOnLost
	if lsv == nil {
		return c
	}
	c.up = lsv.Up
	c.isMaster = lsv.Up && !lsv.HasChannel
	for _, h := range ha {
		if h == L {
			continue
		}
		r := s.mysql.servers[h]
		if s.net.blockedMode(L, h) == "blackhole" {
			c.unreach = true
		}
		if r == nil || !r.Up || s.net.blocked(L, h) {
			continue
		}
		if r.HasChannel && r.IORun && !r.IOConnecting && r.SQLRun && r.Source == L && (!cfg.SemiSync || r.SSSlave) {
			c.live++
		}
	}
	if cfg.SemiSync {
		c.needStrict = lsv.WaitCount
		if lsv.SSMaster {
			c.needLenient = lsv.WaitCount
		}
	} else {
		c.needStrict = len(ha) - 1
		c.needLenient = len(ha) - 1
	}
	return c
}

func (c lostClass) mustNotTouch() bool {
	return c.notHA || c.single || c.disabled || (c.isMaster && c.live >= c.needStrict && c.needStrict > 0)
}

func (c lostClass) mayBeSafe() bool { // under the most lenient reading
	return c.notHA || c.single || c.disabled || (c.isMaster && c.live >= c.needLenient)
}

var lostEnter = map[*iterRec]lostClass{}

func (o *orC08) onIterEnter(it *iterRec) {
	if it.state == "Lost" {
		lostEnter[it] = o.classify(it.inc)
	}
}

func (o *orC08) onIterLeave(it *iterRec) {
	m := o.m
	if it.state != "Lost" {
		delete(o.firstUnreach, it.inc)
		delete(o.mustFenceRun, it.inc)
		return
	}
	if o.firstUnreach == nil {
		o.firstUnreach = map[string]time.Duration{}
		o.mustFenceRun = map[string]int{}
	}
	before, ok := lostEnter[it]
	delete(lostEnter, it)
	if !ok || it.next != "Lost" {
		return
	}
	after := o.classify(it.inc)
	L := srcHostOf(it.inc)
	cfg := &m.s.spec.Cfg
	m.probe("c08_lost_iteration")
	// ---- every Lost iteration, whatever the case
	fenceAttempt, fenceOK, fenceLockWait := false, false, false
	escalated := false
	for _, e := range it.sql {
		if e.Src != it.inc || !e.Mutating {
			continue
		}
		q := e.Query
		if e.Dst != L {
			m.violate("C08", "remote_mutation", "lost-node-changed-a-remote-server:"+e.Kind, fmt.Sprintf("%s (disconnected) sent %q to %s", it.inc, q, e.Dst))
			continue
		}
		switch {
		case q == "SET GLOBAL read_only = 0":
			m.violate("C08", "unfence", "lost-node-unfenced-itself", fmt.Sprintf("%s (disconnected) made %s writable", it.inc, L))
		case strings.HasPrefix(q, "CHANGE "), strings.HasPrefix(q, "RESET "), strings.HasPrefix(q, "START "):
			m.violate("C08", "repoint", "lost-node-changed-replication:"+e.Kind, fmt.Sprintf("%s (disconnected) sent %q", it.inc, q))
		case q == "SET GLOBAL super_read_only = 1":
			fenceAttempt = true
			if e.toldOK() {
				fenceOK = true
			}
			if strings.Contains(e.Err, "1205") {
				fenceLockWait = true
			}
		case q == "SET GLOBAL offline_mode = ON":
			escalated = true
		}
	}
	anyMut := false
	for _, e := range it.sql {
		if e.Src == it.inc && e.Mutating {
			anyMut = true
		}
	}
	// (the daemon restarts its own postponement clock whenever it has seen a live group)
	if before.mayBeSafe() || after.mayBeSafe() {
		delete(o.firstUnreach, it.inc)
	}
	// ---- must not touch (held at both ends of the window)
	if before.mustNotTouch() && after.mustNotTouch() {
		m.probe("c08_class_must_not_touch")
		// a probe of a replica that failed (or whose answer was lost) legitimately lowers the
		// count the daemon sees
		probesOK := true
		for _, e := range it.sql {
			if e.Src == it.inc && !e.Mutating && !e.toldOK() {
				probesOK = false
			}
		}
		if anyMut && probesOK {
			why := "master with a live group"
			switch {
			case before.notHA:
				why = "not an HA host"
			case before.single:
				why = "single-node cluster"
			case before.disabled:
				why = "fencing disabled by configuration"
			}
			var stmts []string
			for _, e := range it.sql {
				if e.Src == it.inc && e.Mutating {
					stmts = append(stmts, e.Kind)
				}
			}
			m.violate("C08", "touched_safe_node", "lost-node-changed-although-must-not-touch", fmt.Sprintf("%s on %s (%s; live=%d need=%d) sent %v", it.inc, L, why, before.live, before.needStrict, stmts))
		}
		delete(o.mustFenceRun, it.inc)
		return
	}
	// ---- postponement window
	if before.unreach || after.unreach {
		if _, ok := o.firstUnreach[it.inc]; !ok {
			o.firstUnreach[it.inc] = it.endT // the daemon's own clock starts when it first observed it
		}
	}
	first, sawUnreach := o.firstUnreach[it.inc]
	mayPostpone := (before.unreach || after.unreach) && sawUnreach && it.endT-first <= ms(cfg.InactivationDelayMs)+ms(cfg.TickMs)
	if mayPostpone {
		m.probe("c08_class_may_postpone")
		delete(o.mustFenceRun, it.inc)
		return
	}
	// ---- must fence (under every reading, at both ends of the window)
	if !before.mayBeSafe() && !after.mayBeSafe() && before.up && after.up {
		m.probe("c08_class_must_fence")
		lsv := m.s.mysql.servers[L]
		if fenceAttempt || (lsv != nil && lsv.ReadOnly && lsv.SuperRO) {
			if fenceOK {
				m.probe("c08_fenced")
			}
			delete(o.mustFenceRun, it.inc)
			// escalation: read-only blocked by commits hanging on ACKs
			// read-only blocked by application sessions (not by commits waiting for an ACK): the
			// sessions are cut and the node is read-only by the end of that very iteration
			if fenceLockWait && !fenceOK && lsv != nil && len(lsv.Blockers) > 0 && len(lsv.waiters) == 0 && it.faults == 0 {
				killed := false
				for _, e := range it.sql {
					if e.Src == it.inc && e.Kind == "kill" {
						killed = true
					}
				}
				if !killed {
					m.violate("C08", "sessions_not_cut", "blocking-sessions-not-cut-when-read-only-timed-out", fmt.Sprintf("%s: read-only on %s failed with lock wait timeout behind %d application session(s), the iteration ended without a KILL and the node is still writable", it.inc, L, len(lsv.Blockers)))
				}
			}
			if fenceLockWait && !fenceOK && lsv != nil && len(lsv.waiters) > 0 && after.isMaster && it.faults == 0 && !escalated {
				m.violate("C08", "no_escalation", "stuck-commits-not-cut-when-fencing-failed", fmt.Sprintf("%s: read-only on %s failed with lock wait timeout while %d commits wait for semi-sync ACK, but sessions were not cut (no offline_mode=ON)", it.inc, L, len(lsv.waiters)))
			}
			return
		}
		o.mustFenceRun[it.inc]++
		if o.mustFenceRun[it.inc] >= 2 && it.faults == 0 {
			m.violate("C08", "not_fenced", "lost-node-not-fenced", fmt.Sprintf("%s on %s: %d consecutive Lost iterations without a read-only attempt although isMaster=%v live=%d need=%d unreachable=%v (first saw a replica unreachable at %v)", it.inc, L, o.mustFenceRun[it.inc], after.isMaster, after.live, after.needLenient, after.unreach, o.firstUnreach[it.inc]))
		}
		return
	}
	delete(o.mustFenceRun, it.inc)
}
