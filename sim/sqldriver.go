package verifsim

// database/sql driver registered under the name "mysql" (the real go-sql-driver is renamed at
// link time). Real mysql.Node / sqlx / database/sql pool run unchanged on top of it; every
// Connect / Query / Exec parks the caller until the controller delivers the call.

import (
	"context"
	"database/sql"
	"database/sql/driver"
	"errors"
	"fmt"
	"io"
	"net"
	"regexp"
	"sync/atomic"
	"syscall"
)

var theSim *Sim

type simDriver struct{}

var dsnRe = regexp.MustCompile(`^([^:]*):[^@]*@tcp\(([^:)]*):\d+\)`)

func (simDriver) Open(string) (driver.Conn, error) { return nil, errors.New("verifsim: use connector") }

func (simDriver) OpenConnector(dsn string) (driver.Connector, error) {
	m := dsnRe.FindStringSubmatch(dsn)
	if m == nil {
		return nil, fmt.Errorf("verifsim: bad dsn %q", dsn)
	}
	return &simConnector{src: m[1], dst: m[2]}, nil
}

type simConnector struct{ src, dst string }

var connSeq atomic.Int64

func (c *simConnector) Connect(ctx context.Context) (driver.Conn, error) {
	id := connSeq.Add(1)
	r := theSim.submit(&call{kind: callSQLDial, src: c.src, dst: c.dst, query: "<dial>", ctx: ctx, connID: id})
	if r.err != nil {
		return nil, r.err
	}
	epoch := int64(0)
	if len(r.rows) > 0 {
		epoch = r.rows[0][0].(int64)
	}
	openConns.Add(1)
	return &simConn{id: id, src: c.src, dst: c.dst, epoch: epoch}, nil
}
func (c *simConnector) Driver() driver.Driver { return simDriver{} }

type simConn struct {
	id       int64
	src, dst string
	epoch    int64
	bad      atomic.Bool
	closed   atomic.Bool
}

var openConns atomic.Int64

func (c *simConn) Prepare(string) (driver.Stmt, error) {
	return nil, errors.New("verifsim: no prepare")
}
func (c *simConn) Begin() (driver.Tx, error) { return nil, errors.New("verifsim: no tx") }
func (c *simConn) Close() error {
	if !c.closed.Swap(true) {
		openConns.Add(-1)
	}
	return nil
}

func (c *simConn) IsValid() bool { return !c.bad.Load() }

func (c *simConn) ResetSession(ctx context.Context) error {
	if c.bad.Load() {
		return driver.ErrBadConn
	}
	return nil
}

func (c *simConn) do(ctx context.Context, q string, a []driver.NamedValue) sqlResult {
	if c.bad.Load() {
		return sqlResult{err: driver.ErrBadConn}
	}
	args := make([]any, len(a))
	for i, v := range a {
		args[i] = v.Value
	}
	r := theSim.submit(&call{kind: callSQL, src: c.src, dst: c.dst, query: normQuery(q), args: args, ctx: ctx, connID: c.id})
	if r.err != nil {
		// any transport-level failure poisons the connection, as with the real driver
		var me *mysqlError
		if !errors.As(r.err, &me) && !isRealMySQLError(r.err) {
			c.bad.Store(true)
		}
	}
	return r
}

func (c *simConn) QueryContext(ctx context.Context, q string, a []driver.NamedValue) (driver.Rows, error) {
	r := c.do(ctx, q, a)
	if r.err != nil {
		return nil, r.err
	}
	rows := make([][]driver.Value, len(r.rows))
	for i, rw := range r.rows {
		rows[i] = make([]driver.Value, len(rw))
		for j, v := range rw {
			rows[i][j] = v
		}
	}
	return &simRows{cols: r.cols, rows: rows}, nil
}

func (c *simConn) ExecContext(ctx context.Context, q string, a []driver.NamedValue) (driver.Result, error) {
	r := c.do(ctx, q, a)
	if r.err != nil {
		return nil, r.err
	}
	return driver.RowsAffected(0), nil
}

type simRows struct {
	cols []string
	rows [][]driver.Value
	i    int
}

func (r *simRows) Columns() []string { return r.cols }
func (r *simRows) Close() error      { return nil }
func (r *simRows) Next(d []driver.Value) error {
	if r.i >= len(r.rows) {
		return io.EOF
	}
	copy(d, r.rows[r.i])
	r.i++
	return nil
}

// mysqlError is only a marker used inside the harness; errors handed to mysync are the real
// driver's *mysql.MySQLError (see errs.go) because mysync dispatches on that type.
type mysqlError struct{ n int }

func (e *mysqlError) Error() string { return fmt.Sprintf("Error %d", e.n) }

func errRefused() error {
	return &net.OpError{Op: "dial", Net: "tcp", Err: syscall.ECONNREFUSED}
}

var sqlPickN atomic.Uint64

func registerDriver() {
	sql.VerifPick = func(n int) int {
		k := sqlPickN.Add(1)
		seed := ""
		if theSim != nil {
			seed = theSim.seedS
		}
		return int(hashStr(seed, "sqlpick", fmt.Sprint(k)) % uint64(n))
	}
	for _, d := range sql.Drivers() {
		if d == "mysql" {
			return
		}
	}
	sql.Register("mysql", simDriver{})
}
