package verifsim

// Simulator core: the controller goroutine owns all world state; every external call of the
// real code (SQL statement, ZooKeeper dial / frame) parks until the controller delivers it.

import (
	"container/heap"
	"context"
	"fmt"
	"hash/fnv"
	"os"
	"regexp"
	"runtime"
	"sort"
	"strings"
	"sync"
	"testing/synctest"
	"time"
)

var pidRe = regexp.MustCompile(`"pid":\d+`)

// ---------------------------------------------------------------- hashing

func mix64(x uint64) uint64 {
	x ^= x >> 30
	x *= 0xbf58476d1ce4e5b9
	x ^= x >> 27
	x *= 0x94d049bb133111eb
	x ^= x >> 31
	return x
}

func hashStr(parts ...string) uint64 {
	h := fnv.New64a()
	for _, p := range parts {
		h.Write([]byte(p))
		h.Write([]byte{0})
	}
	return mix64(h.Sum64())
}

// rng is a tiny splitmix64 stream used only for *scenario generation* (before the run).
type rng struct{ s uint64 }

func newRng(seed uint64, salt string) *rng { return &rng{s: hashStr(fmt.Sprint(seed), salt)} }
func (r *rng) u64() uint64 {
	r.s += 0x9e3779b97f4a7c15
	return mix64(r.s)
}
func (r *rng) intn(n int) int {
	if n <= 0 {
		return 0
	}
	return int(r.u64() % uint64(n))
}
func (r *rng) rangeInt(lo, hi int) int { // inclusive
	if hi <= lo {
		return lo
	}
	return lo + r.intn(hi-lo+1)
}
func (r *rng) chance(p float64) bool    { return float64(r.u64()%1000000)/1000000.0 < p }
func (r *rng) pick(xs ...string) string { return xs[r.intn(len(xs))] }
func (r *rng) pickInt(xs ...int) int    { return xs[r.intn(len(xs))] }

// ---------------------------------------------------------------- events

type event struct {
	at  time.Duration // since sim start
	seq uint64
	run func()
	tag string
}

type eventHeap []*event

func (h eventHeap) Len() int { return len(h) }
func (h eventHeap) Less(i, j int) bool {
	if h[i].at != h[j].at {
		return h[i].at < h[j].at
	}
	return h[i].seq < h[j].seq
}
func (h eventHeap) Swap(i, j int) { h[i], h[j] = h[j], h[i] }
func (h *eventHeap) Push(x any)   { *h = append(*h, x.(*event)) }
func (h *eventHeap) Pop() any {
	old := *h
	n := len(old)
	x := old[n-1]
	*h = old[:n-1]
	return x
}

// ---------------------------------------------------------------- pending external calls

type callKind int

const (
	callSQLDial callKind = iota
	callSQL
	callZKDial
)

type sqlResult struct {
	cols []string
	rows [][]any
	err  error
}

type call struct {
	kind     callKind
	src      string // incarnation id ("h1#1", "cli:h1#3", "client:c1")
	dst      string // mysql host or "zk"
	query    string // normalised statement ("<dial>" for dials)
	args     []any
	ctx      context.Context
	connID   int64
	res      chan sqlResult
	zkc      *memConn      // for zk dial
	stk      uint64        // hash of the submitting goroutine's call stack: goroutine-stable tie-break
	inSwitch bool          // issued from inside (*App).performSwitchover
	it       *iterRec      // state-handler invocation of src that was open when the call was issued
	ev       *SQLEvent     // event of a statement whose reply is deferred (blocked SET read_only)
	issued   time.Duration // instant at which the caller issued the call
	marker   *SQLEvent     // pending-attempt marker of a delayed statement
	// filled by controller
	key  string // stable identity incl. occurrence number
	done bool
}

// ---------------------------------------------------------------- Sim

type Sim struct {
	spec  *Spec
	seed  uint64
	seedS string
	t0    time.Time

	heap eventHeap
	seq  uint64

	pmu      sync.Mutex
	newCalls []*call
	note     chan struct{}

	occ map[string]int

	mysql *World
	zk    *ZKServer
	net   *Net

	daemons    map[string]*Daemon // by incarnation id
	hostInc    map[string]int     // host -> incarnation counter
	liveByHost map[string]*Daemon
	dir        string

	mon *Monitors

	evSeq     uint64 // global delivered-event sequence number (stamps all logs)
	traceHash uint64
	traceLog  *os.File
	verbose   bool

	stats    *Stats
	fired    []ExplicitFault
	explicit map[string]string
	stop     bool
	stopWhy  string

	pilotCalls  []string
	held        []*call
	stmtFailHit bool
	lastMut     map[string]string // sender>server: the sender's previous changing statement
	crashInc    string            // armed: incarnation inside a switchover attempt
	crashCount  int
	crashDone   bool
	bHist       *[]*dcsHist
}

func (s *Sim) now() time.Duration { return time.Since(s.t0) }

func (s *Sim) after(d time.Duration, tag string, f func()) *event {
	if d < 0 {
		d = 0
	}
	s.seq++
	e := &event{at: s.now() + d, seq: s.seq, run: f, tag: tag}
	heap.Push(&s.heap, e)
	return e
}

func (s *Sim) at(t time.Duration, tag string, f func()) *event {
	d := t - s.now()
	return s.after(d, tag, f)
}

func (s *Sim) ping() {
	select {
	case s.note <- struct{}{}:
	default:
	}
}

// submit parks the calling goroutine until the controller answers (or its ctx ends).
func (s *Sim) submit(c *call) sqlResult {
	if _, dead := deadIncs.Load(c.src); dead {
		select {}
	}
	c.res = make(chan sqlResult, 1)
	c.issued = s.now()
	// stack identity by function name and line (program counters are not stable across
	// processes when the binary is position independent)
	var pcs [48]uintptr
	n := runtime.Callers(2, pcs[:])
	h := uint64(1469598103934665603)
	frames := runtime.CallersFrames(pcs[:n])
	for {
		fr, more := frames.Next()
		for i := 0; i < len(fr.Function); i++ {
			h = (h ^ uint64(fr.Function[i])) * 1099511628211
		}
		h = (h ^ uint64(fr.Line)) * 1099511628211
		if strings.HasSuffix(fr.Function, ".performSwitchover") {
			c.inSwitch = true
		}
		if !more {
			break
		}
	}
	c.stk = h
	s.pmu.Lock()
	s.newCalls = append(s.newCalls, c)
	s.pmu.Unlock()
	s.ping()
	var r sqlResult
	if c.ctx == nil {
		r = <-c.res
	} else {
		select {
		case r = <-c.res:
		case <-c.ctx.Done():
			r = sqlResult{err: c.ctx.Err()}
		}
	}
	if _, dead := deadIncs.Load(c.src); dead {
		// the process was killed while this call was in flight: it never sees the outcome
		select {}
	}
	return r
}

var deadIncs sync.Map

// trace records one line of the deterministic event log (hashed always, written when verbose).
func (s *Sim) trace(format string, a ...any) {
	line := fmtDur(s.now()) + " " + fmt.Sprintf(format, a...)
	if i := strings.Index(line, `"pid":`); i >= 0 {
		line = pidRe.ReplaceAllString(line, `"pid":0`)
	}
	// the controller's event counter is shown but not hashed: which of two identical requests of
	// one process is answered "first" at an instant is a scheduler accident worth one count
	s.traceHash = mix64(s.traceHash ^ hashStr(line))
	if s.traceLog != nil {
		fmt.Fprintf(s.traceLog, "%d %s\n", s.evSeq, line)
	}
}

func fmtDur(d time.Duration) string {
	return fmt.Sprintf("%d.%06d", int64(d/time.Second), int64(d%time.Second)/1000)
}

// decision for one call identity: hash-derived, independent of registration order.
func (s *Sim) h(parts ...string) uint64 {
	return hashStr(append([]string{s.seedS}, parts...)...)
}

func (s *Sim) frac(parts ...string) float64 {
	return float64(s.h(parts...)%1000003) / 1000003.0
}

// baseLatency: 200µs + jitter up to 400µs, keyed by identity
func (s *Sim) baseLatency(key string) time.Duration {
	return 200*time.Microsecond + time.Duration(s.h("lat", key)%400000)*time.Nanosecond
}

func normQuery(q string) string {
	q = strings.Join(strings.Fields(q), " ")
	return q
}

// kindOf gives the statement kind used in identities, fault eligibility and oracles.
func queryKind(q string) string {
	switch {
	case q == "<dial>":
		return "dial"
	case q == "SELECT 1 AS Ok":
		return "ping"
	case strings.HasPrefix(q, "SET SESSION lock_wait_timeout"):
		return "set_lock_timeout"
	case strings.HasPrefix(q, "CHANGE MASTER TO"), strings.HasPrefix(q, "CHANGE REPLICATION SOURCE TO"):
		return "change_master"
	case strings.HasPrefix(q, "KILL "):
		return "kill"
	}
	if len(q) > 60 {
		return q[:60]
	}
	return q
}

func (s *Sim) assignKeys(cs []*call) {
	// stable order: by (src, dst, kind, query, args) - independent of goroutine scheduling
	sort.SliceStable(cs, func(i, j int) bool {
		a, b := cs[i], cs[j]
		if a.src != b.src {
			return a.src < b.src
		}
		if a.dst != b.dst {
			return a.dst < b.dst
		}
		if a.query != b.query {
			return a.query < b.query
		}
		if x, y := fmt.Sprint(a.args), fmt.Sprint(b.args); x != y {
			return x < y
		}
		return a.stk < b.stk
	})
	for i, c := range cs {
		base := c.src + "|" + c.dst + "|" + queryKind(c.query)
		if i > 0 {
			p := cs[i-1]
			if p.src == c.src && p.dst == c.dst && p.query == c.query && fmt.Sprint(p.args) == fmt.Sprint(c.args) && p.stk == c.stk {
				s.stats.Probes["identity_tie"]++
			}
		}
		s.occ[base]++
		c.key = fmt.Sprintf("%s|%d", base, s.occ[base])
	}
}

// ---------------------------------------------------------------- controller loop

// raceCut: the controller goroutine runs with race synchronisation handling disabled (see run).
var raceCut bool

// tracked runs f with race synchronisation handling enabled: used where the controller creates
// objects and goroutines of the code under test (their creation must order their first use).
func tracked(f func()) {
	if raceCut {
		raceEnable()
		defer raceDisable()
	}
	f()
}

func (s *Sim) run(until time.Duration) {
	// Race builds: the controller hands every call to the stub worlds and every answer back, which
	// would order (happens-before) all goroutines of all daemons through this one goroutine and
	// hide most races of the code under test. A real network creates no such order: the
	// controller's own synchronisation events are therefore not reported to the race detector
	// (reports whose stacks are inside the harness are filtered by the runner).
	if os.Getenv("VERIF_RACE_KEEP_HB") == "" {
		raceCut = true
		raceDisable()
	}
	for !s.stop {
		stepCounter.Add(1)
		synctest.Wait()
		progressed := false
		// 1. newly registered calls and bytes written by zk clients are only *collected* here.
		// Dials to a reachable, running server are answered at once (see immediateDial); the
		// goroutine then issues its statement at the same instant. Identities, latencies and the
		// order of frames on a connection are assigned only when the whole instant is quiescent
		// (no new call or frame, no event due now), so that the Go scheduler's choices among
		// goroutines that are runnable at the same simulated instant (who got the pool's idle
		// connection, whose identical request was answered first) cannot influence them.
		s.pmu.Lock()
		cs := s.newCalls
		s.newCalls = nil
		s.pmu.Unlock()
		if len(cs) > 0 {
			s.drainHooks()
			for _, c := range cs {
				if it := s.mon.iters[c.src]; it != nil && it.open {
					c.it = it // state-handler invocation that issued the call
				}
				if !s.immediateDial(c) {
					s.held = append(s.held, c)
				}
			}
			continue
		}
		if s.net.collect() {
			continue
		}
		// 2. events due now, one at a time
		if len(s.heap) > 0 && s.heap[0].at <= s.now() {
			e := heap.Pop(&s.heap).(*event)
			s.evSeq++
			evSeqA.Store(s.evSeq)
			s.stats.Steps++
			e.run()
			synctest.Wait()
			s.mon.afterEvent()
			continue
		}
		// 3. the instant is quiescent: give the collected calls and frames their identities
		if len(s.held) > 0 {
			cs = s.held
			s.held = nil
			s.assignKeys(cs)
			for _, c := range cs {
				s.scheduleCall(c)
			}
			progressed = true
		}
		if s.net.flush() {
			progressed = true
		}
		if progressed {
			continue
		}
		if s.now() >= until {
			return
		}
		// 4. nothing due: sleep until next event or new call
		var d time.Duration
		if len(s.heap) > 0 {
			d = s.heap[0].at - s.now()
		} else {
			d = until - s.now()
		}
		if s.now()+d > until {
			d = until - s.now()
		}
		if d <= 0 {
			d = time.Nanosecond
		}
		t := time.NewTimer(d)
		select {
		case <-s.note:
		case <-t.C:
		}
		t.Stop()
	}
}
