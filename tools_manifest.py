#!/usr/bin/env python3
# Regenerates MANIFEST.json from the table below (single source of truth for the interface).
import json, subprocess, sys
claimed = json.load(open('/verif/claimed.json'))
texts = {
 "C01": ("exploration", "Seeded search over switch scenarios with the real performSwitchover; invariant evaluated at every promotion event against ground-truth GTID sets and read_only flags of the fake servers.", "7/C01"),
 "C02": ("exploration", "Seeded search over single-fault scenarios on N real daemons; ack-linearity monitor at every client acknowledgement + canonical final state and no acknowledged loss after heal+bound.", "7/C02"),
 "C03": ("exploration", "Real zkDCS + real go-zookeeper clients against fakezk under connection faults (server-side ownership timeline vs every 'true', foreign release), plus act-under-lock and new-session-write monitors in cluster runs (switch requests with faults; manager cut from ZooKeeper at every call boundary of a switchover).", "7/C03, 15.2"),
 "C04": ("exploration", "Membership transitions with the manager crashed, one call failing or the master dying at sampled call boundaries of the reacting iteration, plus switchovers that fail/are rejected; invariants (a)/(b) before/after every manager iteration on ground truth, membership rules for every published list, eviction guard.", "7/C04, 15.2"),
 "C05": ("exploration", "Reference gate predicate (written from the property text) evaluated at every creation of switch{cause:auto} on what the manager was told.", "7/C05"),
 "C06": ("exploration", "History check over all writes of switch/last_switch/last_rejected_switch under long-failing attempts, aborts and concurrent initiators.", "7/C06"),
 "C07": ("fault_enumeration", "Crash after/before each external call of the managing incarnation, or loss of ZooKeeper at that call (enumerated per scenario); final-state oracle after the successor quiesces, and while the run lasts: the cut-off manager makes nothing writable once the successor finished the request.", "7/C07, 15.2"),
 "C08": ("exploration", "Reference decision table for the Lost state vs statements per Lost iteration over a grid of roles/replica conditions.", "7/C08"),
 "C09": ("exploration", "Real CLI enter/leave (full and light) with daemon restarts, ZooKeeper outages, operator SQL and racing requests; no-effective-change monitor over the acknowledged interval (by issue time and awareness of the issuing host), failover suppression in light mode, leave conditions and emergency marker.", "7/C09, 15.2"),
 "C10": ("exploration", "Safety monitors (master unchanged, no statement to unregistered or deregistered hosts, never self, reset only within attempt limit and cooldown, stale master marked) + bounded convergence from perturbed states.", "7/C10, 15.2"),
 "C11": ("exploration", "Mark/clear/active-list/promotion monitors over recovery scenarios (switch away, failover, returning old masters, hosts found claiming to be master with failing re-pointing).", "7/C11, 15.2"),
 "C15": ("exploration", "Operation-by-operation refinement of real zkDCS against a reference tree, admissibility under faults, ephemeral lifetime; the lock family for the lock as an ephemeral key (reported held only while a live session of the caller owns it).", "7/C15, 15.2"),
 "C16": ("exploration", "Stream-from maps incl. chains, cycles, self and unregistered references with ancestor health scripts; set-valued reference resolution over the pass window and GTID containment at every re-pointing of a cascade server, never self/active/promoted/counted, final convergence, termination watchdog.", "7/C16, 15.2"),
 "C17": ("exploration", "Zone layouts, caps and scripted lag around both thresholds (custom lag query), broken replication, resetup status ages; per-pass policy constraints on every offline_mode statement (thresholds, hysteresis, zone cap with same-pass accumulation, resetup gating, broken-rate limit, master online).", "7/C17, 15.2"),
 "C18": ("exploration", "Disk usage scripts for master and semi-sync replicas through the three zones; reference hysteresis table on the manager's own health reads vs read_only statements at the master and the low-space flag.", "7/C18, 15.2"),
 "C19": ("exploration", "Registries, lag scripts around both marks, equal/unequal settings, CLI enable/disable, failing settings calls, switchovers and failovers; at most one relaxed registered replica after every undisturbed sync, restore-before-drop at every deregistration, nothing frozen or promoted while registered or relaxed.", "7/C19, 15.2"),
 "C20": ("exploration", "Long chaos runs incl. tool-only tree contents: process death (panic signature), non-termination watchdog, goroutine/connection growth in steady runs, race-detector build of the same simulation with the controller's happens-before edges cut.", "7/C20, 15.2"),
}
na = {
 "C12": "pure arithmetic on two integers (min(n/2,w), max(n-..,1)): no schedule, clock, fault or second party for a simulator to decide; its consequence is observed end-to-end by C01/C02 with the quorum recomputed by the harness",
 "C13": "pure functions of GTID sets (subset tests, diff text, split-brain predicate): quantifier is over inputs only; deterministic simulation adds nothing to input enumeration, which is another technique family",
 "C14": "pure recursive choice over a candidate list and a bound: inputs only; the one system-visible clause (never the from-host, always an offered active candidate) is asserted at C01's promotion events",
}
checks=[]
for pid in sorted(claimed):
    lvl, text, ref = texts[pid]
    checks.append({
      "property_id": pid,
      "quick_cmd": f"bin/check {pid} quick",
      "thorough_cmd": f"bin/check {pid} thorough",
      "evidence_file": f"/verif/evidence/{pid}.json",
      "replay_cmd_template": "bin/check --replay {path}",
      "engine": "sim",
      "level_claimed": {"category": lvl, "text": text, "design_ref": "DESIGN.md §"+ref},
      "level_note": "Trusted base: fakemysql and fakezk stubs (DESIGN.md §3, §11), one global simulated clock, GOMAXPROCS=1 per run process; samples schedules and fault sequences, a clean batch is evidence not proof.",
      "technique": "deterministic simulation with fault injection: seeded search over schedules/faults on real mysync code in a testing/synctest bubble, invariant monitors + history checks, replayable shrunk plans",
    })
napp=[{"property_id":k,"reason":v} for k,v in na.items()]
for pid in sorted(texts):
    if pid not in claimed:
        napp.append({"property_id": pid, "reason": "check under construction in this round: scenario family/oracle not finished, so no claim is made yet (the technique applies; see DESIGN.md §7)"})
hooks = subprocess.run(["git","-C","/repo","log","--format=%H","--grep=^verif hook"],capture_output=True,text=True).stdout.split()
m = {
 "version": 1,
 "setup_cmd": "bin/check setup",
 "hooks": {
   "guard": "verif",
   "enable": "go test -c -tags verif -overlay <rewritten tree + /verif/sim as internal/verifsim> (built by bin/check from /repo's working tree with go1.26.8, GOTOOLCHAIN=local)",
   "baseline_off_cmd": "cd /repo && GOFLAGS=-mod=mod GOPROXY=off go test -json -vet=off -count=1 -timeout 25m ./...",
   "source_commits": hooks,
   "add_only": True,
 },
 "engines": [{"name":"sim","path":"/verif/sim","serves_properties":sorted(claimed),"kind_free_text":"deterministic whole-system simulator: N real mysync daemons + real CLI + real zkDCS/go-zookeeper + real database/sql, over fakemysql/fakezk/simnet in one testing/synctest bubble; controller decides every delivery, latency and fault from VERIF_SEED"}],
 "checks": checks,
 "not_applicable": napp,
 "notes": "bin/check <ID> quick|thorough; exit 0 held / 1 VIOLATION (replayed, shrunk, replay file under /verif/replays) / 2 harness trouble. known findings: /verif/known_findings.json.",
}
json.dump(m, open('/verif/MANIFEST.json','w'), indent=1)
print("claimed:", sorted(claimed))
